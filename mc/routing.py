"""Shared driver for C07 (values reach exactly the designated parties) and C19 (parties outside
the receivers get no message from an output/transfer).  Each world execution runs a batch of
operations; each operation is bracketed by a top-level barrier and two marks in the send log,
so that every message a party sends *for this operation* is known without any attribution
heuristics.
"""

import itertools
import collections

from mc.core import Part, stable_hash
from mc.world import World, parse_wire
from mc.explorer import run_execution
from mc.sched import handshake_len


def subsets(m):
    out = []
    for r in range(m + 1):
        out.extend(list(c) for c in itertools.combinations(range(m), r))
    return out


def payload(kind, i):
    """Party i's own object for a transfer (distinct per party)."""
    if kind == 0:
        return None if i == 0 else ('none-like', i)
    if kind == 1:
        return 1000 + i
    if kind == 2:
        return [i, [i + 1, {'k': (i, 'x')}], 'é']
    if kind == 3:
        return bytes([i]) * (i + 1)
    return ('fld', i + 2)        # replaced by a field element inside the program


def cases_for(m, t, tier):
    """All operation cases for an m-party world: list of dicts (JSON-able)."""
    cs = []
    subs = subsets(m)
    k = 0
    # transfer, complete bipartite graphs: every (senders, receivers) pair of subsets
    if m <= 4 or tier == 'thorough':
        for S in subs:
            for R in subs:
                cs.append(dict(op='transfer', senders=S, receivers=R, pl=k % 5))
                k += 1
    # int / range / default forms
    for s in range(m):
        for R in (subs if m <= 3 else [[], [0], [m - 1], list(range(m)), [0, m - 1]]):
            cs.append(dict(op='transfer', senders=s, receivers=R, pl=k % 5))
            k += 1
        for r in range(m):
            cs.append(dict(op='transfer', senders=s, receivers=r, pl=k % 5))
            k += 1
    for r in range(m):
        for S in (subs if m <= 3 else [[], [0], [m - 1], list(range(m)), [m - 1, 0]]):
            cs.append(dict(op='transfer', senders=S, receivers=r, pl=k % 5))
            k += 1
    for a, b in itertools.combinations(range(m + 1), 2):
        cs.append(dict(op='transfer', senders=['range', a, b], receivers=None, pl=k % 5))
        cs.append(dict(op='transfer', senders=None, receivers=['range', a, b], pl=(k + 1) % 5))
        k += 2
    cs.append(dict(op='transfer', senders=None, receivers=None, pl=2))
    # unsorted sender order (results must follow the given sender order)
    if m >= 3:
        cs.append(dict(op='transfer', senders=[2, 0, 1], receivers=[1, 0], pl=1))
        cs.append(dict(op='transfer', senders=[m - 1, 0], receivers=None, pl=3))
    # arbitrary graphs
    if m <= 3:
        arcs_all = [(a, b) for a in range(m) for b in range(m)]
        for bits in range(2 ** len(arcs_all)):
            arcs = [arcs_all[j] for j in range(len(arcs_all)) if bits >> j & 1]
            if m == 3 and tier == 'quick' and bits % 4 not in (0, 3) and bin(bits).count('1') > 3:
                continue
            cs.append(dict(op='graph', form='list', arcs=arcs, pl=k % 5))
            cs.append(dict(op='graph', form='dict', arcs=arcs, pl=(k + 2) % 5))
            if bits % 7 == 3:
                cs.append(dict(op='graph', form='list', arcs=arcs[::-1], pl=(k + 1) % 5))
            k += 1
    else:
        ring = [(a, (a + 1) % m) for a in range(m)]
        star = [(0, b) for b in range(1, m)] + [(b, 0) for b in range(1, m)]
        for arcs in (ring, star, ring[::-1], [(0, 0)], [], [(m - 1, 0), (1, 0), (0, 0)]):
            cs.append(dict(op='graph', form='list', arcs=arcs, pl=k % 5))
            cs.append(dict(op='graph', form='dict', arcs=arcs, pl=(k + 1) % 5))
            k += 1
    # input by every sender subset, several types, scalar and list
    for ty in ('int', 'fld', 'fxp'):
        for S in subs[1:] + list(range(m)) + [None]:
            for shape in ('scalar', 'list2'):
                if m >= 4 and shape == 'list2' and ty != 'int':
                    continue
                cs.append(dict(op='input', ty=ty, senders=S, shape=shape))
    cs.append(dict(op='input', ty='int', senders=list(range(m))[::-1], shape='scalar'))
    # output to every receiver subset x threshold x raw
    for ty in ('int', 'fld', 'fxp'):
        for R in subs + list(range(m)) + [None]:
            for th in [None] + list(range(t, 2 * t + 1)):
                for raw in (False, True):
                    for shape in ('scalar', 'list2'):
                        if (ty != 'int' or m >= 4) and (shape == 'list2' or (raw and th is not None)):
                            continue
                        cs.append(dict(op='output', ty=ty, receivers=R, threshold=th, raw=raw, shape=shape))
    for ty in ('flt', 'grp'):
        for R in [None, [0], [m - 1], [0, m - 1], list(range(1, m)), 0]:
            cs.append(dict(op='output', ty=ty, receivers=R, threshold=None, raw=False, shape='scalar'))
    for i, c in enumerate(cs):
        c['id'] = i
    return cs


def as_arg(v):
    if isinstance(v, list) and v and v[0] == 'range':
        return range(v[1], v[2])
    return v


def as_set(v, m):
    if v is None:
        return list(range(m))
    if isinstance(v, int):
        return [v]
    if isinstance(v, list) and v and v[0] == 'range':
        return list(range(v[1], v[2]))
    return list(v)


async def program(mpc, ctx):
    """Runs ctx['cases'] one after the other; records result and the party's own send window."""
    import sys
    world = ctx['world']
    me = mpc.pid
    m = len(mpc.parties)
    await mpc.start()
    secint = mpc.SecInt(8)
    secfld = mpc.SecFld(101)
    secfxp = mpc.SecFxp(12, 4)
    types = dict(int=secint, fld=secfld, fxp=secfxp)
    values = dict(int=lambda i, j: 3 * i - 4 + j, fld=lambda i, j: 17 * i + 5 + j, fxp=lambda i, j: i * 1.25 - 2 + j)
    for c in ctx['cases']:
        op = c['op']
        if op in ('transfer', 'graph'):
            obj = payload(c['pl'], me)
            if c['pl'] == 4:
                obj = secfld.field(obj[1])
            await mpc.barrier()
            w0 = len(world.msglog)
            if op == 'transfer':
                r = await mpc.transfer(obj, senders=as_arg(c['senders']), receivers=as_arg(c['receivers']))
            else:
                arcs = [tuple(a) for a in c['arcs']]
                if c['form'] == 'dict':
                    d = {a: [] for a in range(m)}
                    for a, b in arcs:
                        d[a].append(b)
                    arcs = d
                r = await mpc.transfer(obj, sender_receivers=arcs)
        elif op == 'input':
            sty = types[c['ty']]
            val = values[c['ty']]
            n = 1 if c['shape'] == 'scalar' else 2
            x = [sty(val(me, j)) for j in range(n)]
            if c['shape'] == 'scalar':
                x = x[0]
            await mpc.barrier()
            w0 = len(world.msglog)
            y = mpc.input(x, senders=as_arg(c['senders']))
            # flatten to one list for output
            flat = []
            _flatten(y, flat)
            await mpc.barrier()       # all sharing messages of this input belong to the window
            w1 = len(world.msglog)
            opened = await mpc.output(flat)
            ctx['results'].append((c['id'], _struct(y), [_pl(v) for v in opened], (w0, w1)))
            continue
        else:   # output
            ty = c['ty']
            if ty in types:
                sty = types[ty]
                v0 = values[ty](1, 0)
                n = 1 if c['shape'] == 'scalar' else 2
                x = mpc.input([sty(values[ty](1, j)) for j in range(n)], senders=0)
                if c['shape'] == 'scalar':
                    x = x[0]
            elif ty == 'flt':
                secflt = mpc.SecFlt(16)
                x = mpc.input(secflt(-2.75), senders=0)
            else:
                fg = sys.modules['mpyc.fingroups']
                G = fg.QuadraticResidues(23)
                secgrp = mpc.SecGrp(G)
                x = mpc.input(secgrp(G.generator ^ 3), senders=0)
                ctx['grp_expected'] = _pl(G.generator ^ 3)
            await mpc.barrier()
            w0 = len(world.msglog)
            kw = {}
            if c['threshold'] is not None:
                kw['threshold'] = c['threshold']
            if c['raw']:
                kw['raw'] = True
            r = await mpc.output(x, receivers=as_arg(c['receivers']), **kw)
        w1 = len(world.msglog)
        ctx['results'].append((c['id'], None, _pl(r), (w0, w1)))
    await mpc.shutdown()


def _flatten(y, out):
    if isinstance(y, list):
        for a in y:
            _flatten(a, out)
    else:
        out.append(y)


def _struct(y):
    if isinstance(y, list):
        return [_struct(a) for a in y]
    return 'x'


def _pl(v):
    """Plain, comparable form of a result."""
    if isinstance(v, list):
        return [_pl(a) for a in v]
    if isinstance(v, tuple):
        return ('tuple', [_pl(a) for a in v])
    if isinstance(v, dict):
        return ('dict', sorted((repr(k), _pl(a)) for k, a in v.items()))
    if isinstance(v, (int, float, str, bytes, bool)) or v is None:
        return v
    if hasattr(type(v), 'order') and hasattr(v, 'value') and not hasattr(type(v), 'identity'):
        return ('fld', int(v))
    return ('obj', repr(v))


def expected_payload(kind, i):
    p = payload(kind, i)
    if kind == 4:
        return ('fld', p[1])
    return _pl(p)


def is_nothing(r):
    """What a party that is not a receiver may get: no information at all."""
    return r is None or r == [] or (isinstance(r, list) and all(a is None for a in r))


def expected_result(c, m, t, i):
    """Plain expected result of case c for party i; returns ('nothing',) for non-receivers."""
    op = c['op']
    if op == 'transfer':
        S, R = as_set(c['senders'], m), as_set(c['receivers'], m)
        if i not in R:
            return ('nothing',)
        vals = [expected_payload(c['pl'], s) for s in S]
        if isinstance(c['senders'], int):
            return ('value', vals[0])
        return ('value', vals)
    if op == 'graph':
        arcs = [tuple(a) for a in c['arcs']]
        if c['form'] == 'dict':
            srcs = [a for a in range(m) if any(x == a and y == i for x, y in arcs)]
        else:
            srcs = [a for a, b in arcs if b == i]
        if not srcs:
            return ('nothing',)
        return ('value', [expected_payload(c['pl'], a) for a in srcs])
    if op == 'output':
        R = as_set(c['receivers'], m)
        n = 1 if c['shape'] == 'scalar' else 2
        if i not in R:
            return ('nothing',)
        ty = c['ty']
        if ty == 'int':
            vals = [3 * 1 - 4 + j for j in range(n)]
            if c['raw']:
                vals = [('fld', v) for v in vals]
        elif ty == 'fld':
            vals = [('fld', 17 + 5 + j) for j in range(n)]
        elif ty == 'fxp':
            vals = [1.25 - 2 + j for j in range(n)]
            if c['raw']:
                vals = [('fld', int(v * 16)) for v in vals]
        elif ty == 'flt':
            vals = [-2.75]
        else:
            vals = [('grp',)]     # replaced by the plain group element computed in the program
        return ('value', vals[0] if c['shape'] == 'scalar' else vals)
    raise ValueError(op)


def allowed_dsts(c, m, src):
    """Parties that src may send messages to on behalf of case c (C19)."""
    op = c['op']
    if op == 'transfer':
        S, R = as_set(c['senders'], m), as_set(c['receivers'], m)
        return set(R) if src in S else set()
    if op == 'graph':
        return {b for a, b in (tuple(x) for x in c['arcs']) if a == src}
    if op == 'output':
        return set(as_set(c['receivers'], m))
    return set(range(m))


def judge_c07(part, cfg, c, m, t, results, grp_expected=None):
    """results[i] = (struct, value, window) of party i for case c."""
    op = c['op']
    if op == 'input':
        S = as_set(c['senders'], m)
        n = 1 if c['shape'] == 'scalar' else 2
        val = dict(int=lambda i, j: 3 * i - 4 + j, fld=lambda i, j: ('fld', (17 * i + 5 + j) % 101),
                   fxp=lambda i, j: i * 1.25 - 2 + j)[c['ty']]
        if isinstance(c['senders'], int):
            want_struct = 'x' if n == 1 else ['x'] * n
        else:
            want_struct = ['x' if n == 1 else ['x'] * n for _ in S]
        want = [val(s, j) for s in S for j in range(n)]
        for i in range(m):
            struct, opened, _ = results[i]
            if struct != want_struct:
                part.violation('C07:input:shape', f'[{cfg}] {c}: party {i} got result structure {struct}, expected {want_struct}', dict(cfg=cfg, case=c))
            elif opened != want:
                part.violation('C07:input:value', f'[{cfg}] {c}: party {i}: inputs open to {opened}, senders supplied {want}', dict(cfg=cfg, case=c))
        return
    got_vals = []
    for i in range(m):
        exp = expected_result(c, m, t, i)
        r = results[i][1]
        if exp[0] == 'nothing':
            if not is_nothing(r):
                part.violation(f'C07:{op}:non-receiver', f'[{cfg}] {c}: party {i} is no receiver but obtained {r!r:.100}', dict(cfg=cfg, case=c))
            continue
        want = exp[1]
        if op == 'output' and c['ty'] == 'grp':
            want = grp_expected
        got_vals.append(r)
        if r != want:
            part.violation(f'C07:{op}:value', f'[{cfg}] {c}: party {i} obtained {r!r:.120}, expected {want!r:.120}', dict(cfg=cfg, case=c))
    if op == 'output' and len({repr(v) for v in got_vals}) > 1:
        part.violation('C07:output:receivers-disagree', f'[{cfg}] {c}: receivers obtained different values {got_vals!r:.160}', dict(cfg=cfg, case=c))


FLOAT_HELPER_SITES = ('_distribute', '_reshare')


def judge_c19(part, cfg, c, m, t, results, msglog):
    op = c['op']
    if op == 'input':
        return
    is_flt_subset = op == 'output' and c['ty'] == 'flt' and sorted(as_set(c['receivers'], m)) != list(range(m))
    for src in range(m):
        w0, w1 = results[src][2]
        allowed = allowed_dsts(c, m, src)
        for kind, p, peer, label, n, site in msglog[w0:w1]:
            if kind != 'send' or p != src:
                continue
            if peer in allowed:
                continue
            inner = site.split('<')[0]
            if is_flt_subset and inner in FLOAT_HELPER_SITES:
                continue      # fresh random sharings (their degree/freshness is C14's business)
            part.violation(f'C19:{op}:{c.get("ty", "obj")}:message-to-non-receiver',
                           f'[{cfg}] {c}: party {src} sent {n} bytes to party {peer} (site {site}), which is no receiver',
                           dict(cfg=cfg, case=c))


def run_batch(world, cases, policy):
    ctxs = []

    def setup(w):
        ctxs.clear()
        for p in range(w.m):
            ctxs.append(dict(world=w, cases=cases, results=[]))
            w.spawn(p, program, ctxs[p])
    x = run_execution(world, setup, (), policy, 'none', sched_alts=False)
    return x, ctxs


def wire_vs_log(world):
    """Every frame on every link corresponds to one monitored _send_message (nothing bypasses it)."""
    probs = []
    sends = collections.Counter((p, peer) for kind, p, peer, *_ in world.msglog if kind == 'send')
    for (src, dst), link in world.links.items():
        hs, frames, rest = parse_wire(link.wire, handshake_len(world, src, dst))
        if len(frames) != sends.get((src, dst), 0) or rest:
            probs.append(f'link {src}->{dst}: {len(frames)} frames on the wire, {sends.get((src, dst), 0)} monitored sends, {len(rest)} stray bytes')
    return probs


def plan(prop, tier, seed):
    jobs = []
    configs = [(2, 0), (3, 1), (4, 1)] + ([(3, 0), (5, 2), (5, 1)] if tier == 'thorough' else [])
    for (m, t) in configs:
        for no_prss in (False, True):
            if no_prss and tier == 'quick' and m == 4:
                continue
            n = len(cases_for(m, t, tier))
            per = 40
            nb = (n + per - 1) // per
            for b in range(nb):
                for policy in (('eager',) if tier == 'quick' and b % 2 else ('eager', 'lazy')):
                    jobs.append(dict(prop=prop, m=m, t=t, no_prss=no_prss, lo=b * per, hi=min(n, (b + 1) * per),
                                     policy=policy, seed=seed, tier=tier))
    return jobs


def run_job(job):
    part = Part()
    m, t = job['m'], job['t']
    world = World(m, t, job['no_prss'], seed=job['seed'])
    allc = cases_for(m, t, job['tier'])
    cases = allc[job['lo']:job['hi']]
    cfg = f"m{m}t{t}{'-noprss' if job['no_prss'] else ''}/{job['policy']}"
    x, ctxs = run_batch(world, cases, job['policy'])
    part.transitions += x.nsteps
    if x.status != 'done' or any(len(c['results']) != len(cases) for c in ctxs):
        # find the first case that did not complete everywhere
        done = min(len(c['results']) for c in ctxs)
        bad = cases[done] if done < len(cases) else None
        part.violation(f"{job['prop']}:{bad['op'] if bad else 'batch'}:incomplete",
                       f'[{cfg}] batch ends {x.status}; first case not completed by all parties: {bad}; '
                       f'errors {[e[:1] for e in world.loop_errors]!r:.300}', dict(cfg=cfg, case=bad, job=job))
        cases = cases[:done]
    for p in wire_vs_log(world):
        part.violation(f"{job['prop']}:wire-vs-log", f'[{cfg}] {p}', dict(cfg=cfg, job=job))
    for k, c in enumerate(cases):
        results = []
        for i in range(m):
            cid, struct, val, win = ctxs[i]['results'][k]
            assert cid == c['id']
            results.append((struct, val, win))
        detail_job = dict(job, lo=job['lo'] + k, hi=job['lo'] + k + 1)
        before = len(part.violations)
        if job['prop'] == 'C07':
            judge_c07(part, cfg, c, m, t, results, ctxs[0].get('grp_expected'))
        else:
            judge_c19(part, cfg, c, m, t, results, world.msglog)
        for v in part.violations[before:]:
            v['detail']['job'] = detail_job
        nontrivial = c['op'] == 'input' or any(expected_result(c, m, t, i)[0] == 'nothing' for i in range(m))
        part.case(key=None, nontrivial=nontrivial)
        part.outcomes.add(stable_hash([r[1] for r in results]))
        if len(part.samples) < 2 and nontrivial and k % 7 == 3:
            part.sample(dict(config=cfg, case=c, results_per_party=[r[1] for r in results]))
    return part


def replay(case):
    job = case['job']
    return run_job(job)
