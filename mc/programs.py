"""Corpus of driver programs: ordinary MPyC programs `async def prog(mpc, ctx)`.

Every program logs what it learns through ctx.out(tag, value); `expect(m)` gives the plain
Python reference of that log where one exists (otherwise the zero-deviation run is the
reference and all parties / all schedules must agree with it).
"""

import math


class Ctx:
    """Per-party program context (observations only)."""

    def __init__(self, world, pid):
        self.world = world
        self.pid = pid
        self.log = []
        self.unordered = {}       # observations whose relative order is legitimately schedule dependent
        self.barrier_reports = []

    def out(self, tag, value):
        self.log.append((tag, _plain(value)))

    def out_unordered(self, tag, value):
        self.unordered[tag] = _plain(value)

    def view(self):
        return self.log + sorted(self.unordered.items())

    # C35 instrumentation -----------------------------------------------------------------
    def tasks_before(self):
        return list(self.world.tasklog[self.pid])

    def report_barrier(self, name, before):
        pending = [t.verif_name for t in before if not t.done()]
        self.barrier_reports.append((name, pending))


def _plain(v):
    if isinstance(v, (list, tuple)):
        return [_plain(a) for a in v]
    if isinstance(v, (int, float, str, bool, bytes)) or v is None:
        return v
    if hasattr(v, 'value') and hasattr(type(v), 'order'):   # finite field element
        return ('fld', int(v) if not hasattr(v.value, 'degree') else int(v.value))
    return repr(v)


PROGRAMS = {}


def program(name, ms=(2, 3), expect=None, tags=()):
    def deco(f):
        PROGRAMS[name] = dict(name=name, fn=f, ms=ms, expect=expect, tags=set(tags))
        return f
    return deco


# ------------------------------------------------------------------------------------------
# basic arithmetic, comparison, outputs
# ------------------------------------------------------------------------------------------

@program('mul_cmp', ms=(2, 3, 5), expect=lambda m: [('r', [(2 * 3 + (4 if m > 2 else 3)), 1, 0])])
async def mul_cmp(mpc, ctx):
    await mpc.start()
    secint = mpc.SecInt(8)
    a = mpc.input(secint(mpc.pid + 2))
    c = a[0] * a[1] + a[-1 if len(a) < 3 else 2]
    b = a[0] < a[1]
    e = a[0] == a[1]
    ctx.out('r', await mpc.output([c, b, e]))
    await mpc.shutdown()


@program('mod_race', ms=(2, 3), expect=lambda m: [('c', 25), ('b', 1)])
async def mod_race(mpc, ctx):
    """Awaits results that may or may not be complete, with no-pc operators in between."""
    await mpc.start()
    secint = mpc.SecInt(8)
    a = mpc.input(secint(5), senders=0)
    f1 = mpc.output(a)
    f2 = mpc.output(a + 1)
    await f1
    b = a % 2
    await f2
    c = mpc.output(a * a)
    ctx.out('c', await c)
    ctx.out('b', await mpc.output(b))
    await mpc.shutdown()


@program('nopc_ops_race', ms=(2, 3), expect=lambda m: [('x', [7, -7, 12, 5, 28, 2, 3, 14, 10, 24])])
async def nopc_ops_race(mpc, ctx):
    """Every operator implemented as mpc_coro_no_pc, each squeezed between two awaits of
    results that may or may not be complete (so its task step can fall on either side of the
    main program's next fork)."""
    await mpc.start()
    secint = mpc.SecInt(8)
    a = mpc.input(secint(7), senders=0)
    res = []
    ops = [lambda: +a, lambda: -a, lambda: a + 5, lambda: 12 - a, lambda: a << 2, lambda: mpc.lsb(a) + 1,
           lambda: mpc.sum([a, -a], start=3), lambda: mpc.vector_add([a], [a])[0],
           lambda: mpc.vector_sub([a + 3], [secint(0)])[0], lambda: mpc.from_bits(mpc.to_bits(a + 17))]
    for op in ops:
        f1 = mpc.output(a)
        f2 = mpc.output(a * a)
        await f1
        r = op()
        await f2
        g = mpc.output(r * 1)
        res.append(await g)
    ctx.out('x', res)
    await mpc.shutdown()


@program('reverse_await', ms=(2, 3), expect=lambda m: [('a', 6), ('b', 9), ('c', 54)])
async def reverse_await(mpc, ctx):
    await mpc.start()
    secint = mpc.SecInt(8)
    x = mpc.input(secint(6), senders=0)
    y = mpc.input(secint(9), senders=m1(mpc))
    fa = mpc.output(x)
    fb = mpc.output(y)
    fc = mpc.output(x * y)
    ctx.out('c_first', None)
    c = await fc
    b = await fb
    a = await fa
    ctx.out('a', a), ctx.out('b', b), ctx.out('c', c)
    await mpc.shutdown()
reverse_await_expect = lambda m: [('c_first', None), ('a', 6), ('b', 9), ('c', 54)]
PROGRAMS['reverse_await']['expect'] = reverse_await_expect


def m1(mpc):
    return len(mpc.parties) - 1


@program('subset_output', ms=(3,), expect=None)
async def subset_output(mpc, ctx):
    await mpc.start()
    secint = mpc.SecInt(8)
    x = mpc.input(secint(mpc.pid + 1))
    s = mpc.sum(x)
    p = mpc.prod(x)
    ctx.out('s0', await mpc.output(s, receivers=0))
    ctx.out('p12', await mpc.output(p, receivers=[1, 2]))
    ctx.out('raw', await mpc.output(s * p, raw=True))
    await mpc.shutdown()


@program('transfer_graph', ms=(3,), expect=None)
async def transfer_graph(mpc, ctx):
    await mpc.start()
    i = mpc.pid
    ctx.out('all', await mpc.transfer({'from': i}))
    ctx.out('to0', await mpc.transfer(i * 10, senders=[1, 2], receivers=0))
    ctx.out('graph', await mpc.transfer(('g', i), sender_receivers=[(0, 1), (1, 2), (2, 0), (0, 2)]))
    ctx.out('dict', await mpc.transfer(b'x' * i, sender_receivers={0: [1], 1: [], 2: [0, 1]}))
    await mpc.shutdown()


@program('barrier_top', ms=(2, 3), expect=None, tags=('barrier',))
async def barrier_top(mpc, ctx):
    await mpc.start()
    secint = mpc.SecInt(8)
    x = mpc.input(secint(3 + mpc.pid))
    y = [a * a for a in x]
    z = mpc.prod(y)
    before = ctx.tasks_before()
    await mpc.barrier('one')
    ctx.report_barrier('one', before)
    w = z * x[0] + (x[0] < x[1])
    v = mpc.output(w)
    before = ctx.tasks_before()
    await mpc.barrier()
    ctx.report_barrier('two', before)
    before = ctx.tasks_before()
    await mpc.barrier()
    ctx.report_barrier('three', before)
    ctx.out('v', await v)
    await mpc.shutdown()


@program('barrier_single', ms=(1,), expect=None, tags=('barrier',))
async def barrier_single(mpc, ctx):
    """One party started with an explicit -M1 runs asynchronously as well: its barrier has coroutines to wait for."""
    await mpc.start()
    secint = mpc.SecInt(8)
    a = mpc.input(secint(3), senders=0)
    z = mpc.prod([a * a, a + 1, a])
    w = mpc.output(z * a + (a < 5))
    before = ctx.tasks_before()
    await mpc.barrier('one')
    ctx.report_barrier('one', before)
    ctx.out('w', await w)
    await mpc.shutdown()


@program('no_barrier_shutdown', ms=(2, 3), expect=lambda m: [('c', 64)], tags=('barrier',))
async def no_barrier_shutdown(mpc, ctx):
    """Option --no-barrier: barrier() is a no-op, but shutdown() must still wait for the coroutines that are under way."""
    await mpc.start()
    saved = mpc.options.no_barrier
    mpc.options.no_barrier = True
    try:
        secint = mpc.SecInt(8)
        a = mpc.input(secint(2), senders=0)
        c = a
        for _ in range(5):
            c = c * a                 # dependent multiplications, not awaited
        f = mpc.output(c)
        f.add_done_callback(lambda fut: ctx.out_unordered('c', fut.result()))
        await mpc.barrier()           # returns at once under --no-barrier
        await mpc.shutdown()
    finally:
        mpc.options.no_barrier = saved


@program('restart_threshold', ms=(3,), expect=lambda m: [('lt1', 1), ('bits1', True), ('lt2', 1), ('eq2', 0), ('bits2', True)])
async def restart_threshold(mpc, ctx):
    """Two runs in one process with the threshold changed in between (Runtime.threshold setter): keys, PRFs and sharings of
    the second run must all belong to the new threshold."""
    await mpc.start()
    secint = mpc.SecInt(8)
    a = mpc.input(secint(5), senders=0)
    ctx.out('lt1', await mpc.output(a < 7))
    ctx.out('bits1', all(b in (0, 1) for b in await mpc.output(mpc.random_bits(secint, 3))))
    await mpc.shutdown()
    mpc.threshold = 0
    await mpc.start()
    b = mpc.input(secint(3), senders=0)
    ctx.out('lt2', await mpc.output(b < 7))
    ctx.out('eq2', await mpc.output(b == 4))
    ctx.out('bits2', all(x in (0, 1) for x in await mpc.output(mpc.random_bits(secint, 3))))
    await mpc.shutdown()


@program('barrier_nested', ms=(2, 3), expect=None, tags=('barrier',))
async def barrier_nested(mpc, ctx):
    await mpc.start()
    secint = mpc.SecInt(8)

    @mpc.coroutine
    async def f(a, b):
        await mpc.returnType(secint)
        c = a * b
        d = c * c
        a, d = await mpc.gather(a, d)
        return a + d

    x = mpc.input(secint(2 + mpc.pid))
    r = f(x[0], x[1])
    s = f(r, x[0])
    before = ctx.tasks_before()
    await mpc.barrier('outer')
    ctx.report_barrier('outer', before)
    ctx.out('s', await mpc.output(s))
    await mpc.shutdown()


@program('early_return', ms=(2, 3), expect=None, tags=('barrier',))
async def early_return(mpc, ctx):
    """The program ends while results are still being computed: shutdown has to wait."""
    async with mpc:
        secint = mpc.SecInt(8)
        x = mpc.input(secint(1 + mpc.pid))
        y = x[0] * x[1]
        z = y * y * y
        f = mpc.output(z)
        g = mpc.output(z + 1, receivers=0)
        ctx.out('y', await mpc.output(y))
        f.add_done_callback(lambda fut: ctx.out_unordered('late', fut.result()))
        g.add_done_callback(lambda fut: ctx.out_unordered('late0', fut.result()))


@program('user_coro', ms=(2, 3), expect=None)
async def user_coro(mpc, ctx):
    await mpc.start()
    secfld = mpc.SecFld(101)

    @mpc.coroutine
    async def g(a, n):
        await mpc.returnType(secfld, n)
        a = await mpc.gather(a)
        out = []
        for i in range(n):
            out.append(mpc._reshare(a * (i + 1)))
        return out

    @mpc.coroutine
    async def h(x) -> asyncio_future():
        y = await mpc.output(mpc.sum(x))
        return int(y) + 1

    a = mpc.input(secfld(10 + mpc.pid), senders=0)
    v = g(a, 3)
    ctx.out('h', await h(v))
    ctx.out('v', await mpc.output(v))
    await mpc.shutdown()


def asyncio_future():
    import asyncio
    return asyncio.Future


@program('fxp', ms=(2, 3), expect=None)
async def fxp(mpc, ctx):
    await mpc.start()
    secfxp = mpc.SecFxp(16, 8)
    x = mpc.input(secfxp(1.5 + mpc.pid), senders=0)
    y = mpc.input(secfxp(-2.25), senders=m1(mpc))
    ctx.out('sum', await mpc.output(x + y))
    ctx.out('prod', await mpc.output(x * y))
    ctx.out('cmp', await mpc.output([x < y, x >= y, abs(y) == 2.25]))
    ctx.out('div', round(await mpc.output(x / y) * 16) / 16)
    await mpc.shutdown()


@program('convert', ms=(2, 3), expect=lambda m: [('c', [5, ('fld', 5), 5.0, -3])])
async def convert(mpc, ctx):
    await mpc.start()
    secint = mpc.SecInt(8)
    secint16 = mpc.SecInt(16)
    secfld = mpc.SecFld(1021)
    secfxp = mpc.SecFxp(12, 4)
    a = mpc.input(secint(5), senders=0)
    b = mpc.input(secint(-3), senders=0)
    c1 = mpc.convert(a, secint16)
    c2 = mpc.convert(a, secfld)
    c3 = mpc.convert(a, secfxp)
    c4 = mpc.convert(mpc.convert(b, secfxp), secint16)
    ctx.out('c', [await mpc.output(c1), await mpc.output(c2), await mpc.output(c3), await mpc.output(c4)])
    await mpc.shutdown()


@program('bits', ms=(2, 3), expect=lambda m: [('bits', [1, 0, 1, 1, 0, 0, 0, 0]), ('tz', 2), ('fb', 13),
                                              ('gcd', 6), ('uv', [0, 0, 1, 0])])
async def bits(mpc, ctx):
    await mpc.start()
    secint = mpc.SecInt(8)
    a = mpc.input(secint(13), senders=0)
    bts = mpc.to_bits(a)
    ctx.out('bits', await mpc.output(bts))
    tz = mpc.trailing_zeros(a - 1)
    ctx.out('tz', await mpc.output(mpc.sum([1 - b for b in _prefix_or(mpc, tz)])))
    ctx.out('fb', await mpc.output(mpc.from_bits(bts)))
    ctx.out('gcd', await mpc.output(mpc.gcd(a + 5, secint(12), l=5)))
    ctx.out('uv', await mpc.output(mpc.unit_vector(a - 11, 4)))
    await mpc.shutdown()


def _prefix_or(mpc, bits):
    out = []
    acc = None
    for b in bits:
        acc = b if acc is None else acc + b - acc * b
        out.append(acc)
    return out


@program('selection', ms=(2, 3), expect=lambda m: [('sorted', [-4, 1, 3, 7]), ('mm', [-4, 7]), ('arg', [2, -4, 3, 7]),
                                                   ('ifelse', [3, 1]), ('all_any', [0, 1])])
async def selection(mpc, ctx):
    await mpc.start()
    secint = mpc.SecInt(8)
    x = mpc.input([secint(v) for v in (3, 1, -4, 7)], senders=0)
    ctx.out('sorted', await mpc.output(mpc.sorted(x)))
    ctx.out('mm', await mpc.output(list(mpc.min_max(x))))
    i, mn = mpc.argmin(x)
    j, mx = mpc.argmax(x)
    ctx.out('arg', await mpc.output([i, mn, j, mx]))
    ctx.out('ifelse', await mpc.output(mpc.if_else(x[0] > x[1], [x[0], x[1]], [x[1], x[0]])))
    ctx.out('all_any', await mpc.output([mpc.all([x[0] > 0, x[2] > 0]), mpc.any([x[0] > 0, x[2] > 0])]))
    await mpc.shutdown()


@program('linalg', ms=(2, 3), expect=lambda m: [('ip', 3 * 1 + 1 * 2 - 4 * 3 + 7 * 4), ('mp', [[10, -5], [-5, 65]]),
                                                ('sp', [3, 2, -12, 28]), ('sm', [6, 2, -8, 14])])
async def linalg(mpc, ctx):
    await mpc.start()
    secint = mpc.SecInt(10)
    x = mpc.input([secint(v) for v in (3, 1, -4, 7)], senders=0)
    y = [secint(v) for v in (1, 2, 3, 4)]
    ctx.out('ip', await mpc.output(mpc.in_prod(x, y)))
    A = [x[:2], x[2:]]
    ctx.out('mp', [await mpc.output(r) for r in mpc.matrix_prod(A, A, tr=True)])
    ctx.out('sp', await mpc.output(mpc.schur_prod(x, y)))
    ctx.out('sm', await mpc.output(mpc.scalar_mul(secint(2), x)))
    await mpc.shutdown()


@program('randoms', ms=(2, 3), expect=None, tags=('random',))
async def randoms(mpc, ctx):
    """Outputs are random; what is logged are the invariants (schedule independent)."""
    await mpc.start()
    secint = mpc.SecInt(8)
    r = mpc.random.randrange(secint, 3, 11)
    u = mpc.random.random_unit_vector(secint, 5)
    p = mpc.random.random_permutation(secint, 4)
    b = mpc.random_bits(secint, 3)
    r, u, p, b = await mpc.output(r), await mpc.output(u), await mpc.output(p), await mpc.output(b)
    ctx.out('inv', [3 <= r < 11, sorted(u), sorted(p), [x in (0, 1) for x in b]])
    ctx.out('vals', [r, u, p, b])     # same for all parties and (with the seeded seam) all schedules
    await mpc.shutdown()


@program('seclist_ops', ms=(2, 3), expect=lambda m: [('x', [0, 10, 99, 30]), ('g', 99), ('cnt', 1), ('srt', [0, 10, 30, 99])])
async def seclist_ops(mpc, ctx):
    await mpc.start()
    secint = mpc.SecInt(8)
    x = mpc.seclist([0, 10, 20, 30], secint)
    i = mpc.input(secint(2), senders=0)
    x[i] = secint(99)
    ctx.out('x', await mpc.output(list(x)))
    ctx.out('g', await mpc.output(x[i]))
    ctx.out('cnt', await mpc.output(x.count(99)))
    x.sort()
    ctx.out('srt', await mpc.output(list(x)))
    await mpc.shutdown()


@program('stats', ms=(2, 3), expect=lambda m: [('mean', 4), ('median', 3), ('mode', 3)])
async def stats(mpc, ctx):
    await mpc.start()
    secint = mpc.SecInt(10)
    x = mpc.input([secint(v) for v in (3, 1, 3, 9, 4)], senders=0)
    ctx.out('mean', await mpc.output(mpc.statistics.mean(x)))
    ctx.out('median', await mpc.output(mpc.statistics.median(x)))
    ctx.out('mode', await mpc.output(mpc.statistics.mode(x)))
    await mpc.shutdown()


@program('flt', ms=(2, 3), expect=lambda m: [('s', 3.75), ('p', 3.125), ('lt', 0)])
async def flt(mpc, ctx):
    await mpc.start()
    secflt = mpc.SecFlt(16)
    a = mpc.input(secflt(2.5), senders=0)
    b = mpc.input(secflt(1.25), senders=m1(mpc))
    ctx.out('s', await mpc.output(a + b))
    ctx.out('p', await mpc.output(a * b))
    ctx.out('lt', await mpc.output(a < b))
    await mpc.shutdown()


@program('groups', ms=(2, 3), expect=None)
async def groups(mpc, ctx):
    await mpc.start()
    from_mpc = mpc.SecGrp
    S3 = sym_group(mpc, 4)      # NB: Sym(n) needs n > m (its index field GF(n) must not be lifted)
    secgrp = mpc.SecGrp(S3)
    a = S3((1, 2, 0, 3))
    b = S3((1, 0, 3, 2))
    sa = mpc.input(secgrp(a), senders=0)
    sb = secgrp(b)
    ctx.out('ab', repr(await mpc.output(sa @ sb)))
    ctx.out('inv', repr(await mpc.output(~sa)))
    ctx.out('eq', await mpc.output(sa == sb))
    QR = qr_group(mpc, 23)
    secqr = mpc.SecGrp(QR)
    g = QR.generator
    sg = mpc.input(secqr(g), senders=0)
    secint = secqr.sectype if hasattr(secqr, 'sectype') else None
    ctx.out('pow', repr(await mpc.output(sg ^ 5)))
    e = mpc.input(mpc.SecInt(8)(3), senders=0)
    ctx.out('spow', repr(await mpc.output(sg ^ e)))
    await mpc.shutdown()


def sym_group(mpc, n):
    import sys
    fg = sys.modules['mpyc.fingroups']
    return fg.SymmetricGroup(n)


def qr_group(mpc, p):
    import sys
    fg = sys.modules['mpyc.fingroups']
    return fg.QuadraticResidues(p)


@program('small_field', ms=(3,), expect=lambda m: [('r', [('fld', 1), ('fld', 0), ('fld', 1), 1])])
async def small_field(mpc, ctx):
    """GF(2) and GF(3) with 3 parties: lifted to extension fields."""
    await mpc.start()
    sec2 = mpc.SecFld(2)
    sec3 = mpc.SecFld(3)
    a = mpc.input(sec2(1), senders=0)
    b = mpc.input(sec2(1), senders=1)
    c = mpc.input(sec3(2), senders=2)
    ctx.out('r', [await mpc.output(a * b), await mpc.output(a + b), await mpc.output(c * c),
                  await mpc.is_zero_public(a + b)])
    await mpc.shutdown()


@program('throttle', ms=(2, 3), expect=None, tags=('barrier',))
async def throttle(mpc, ctx):
    await mpc.start()
    secint = mpc.SecInt(8)
    x = mpc.input(secint(2), senders=0)
    for i in range(3):
        x = x * x
        await mpc.throttler(0.5, name=f't{i}')
    ctx.out('x', await mpc.output(x))
    await mpc.shutdown()


@program('zero_tests', ms=(2, 3), expect=lambda m: [('z', [1, 0, 1, 0, 1])])
async def zero_tests(mpc, ctx):
    await mpc.start()
    secint = mpc.SecInt(8)
    a = mpc.input(secint(0), senders=0)
    b = mpc.input(secint(-128), senders=m1(mpc))
    z = [await mpc.is_zero_public(a), await mpc.is_zero_public(b), await mpc.eq_public(b, b)]
    z += await mpc.output([mpc.is_zero(b), mpc.sgn(a, EQ=True)])
    ctx.out('z', [int(v) for v in z])
    await mpc.shutdown()


@program('mutate_after_call', ms=(2, 3), expect=lambda m: [('r', [[4, 5], 9, 20, 23, [5, 7], [4, 10], [4, 5], [4, 5], 5, [4, 5]]),
                                                           ('r2', [5, 1, 0, [0, 1, 0], [3, 3], [12, 15], [[36, 45], [36, 45]], [[7, 8], [4, 5]], [1, 5], [4, 5], [4, 5], [4, 5, 4, 5]])])
async def mutate_after_call(mpc, ctx):
    """The caller overwrites its argument lists right after each call (before yielding to the loop): every API
    function that takes a list works on its own copy, so results must not change."""
    await mpc.start()
    secint = mpc.SecInt(8)
    junk = secint(-99)

    def fresh():
        return [secint(4), secint(5)]
    res = []
    buf = fresh()
    y = mpc.input(buf, senders=0)
    buf[0] = buf[1] = junk
    x = fresh()
    f = mpc.output(x)
    x[0] = x[1] = junk
    res.append(await mpc.output(y))
    x = fresh(); r = mpc.sum(x); x[0] = x[1] = junk; res.append(await mpc.output(r))
    x = fresh(); r = mpc.prod(x); x[0] = x[1] = junk; res.append(await mpc.output(r))
    x = fresh(); z = [secint(2), secint(3)]; r = mpc.in_prod(x, z); x[0] = z[1] = junk; res.append(await mpc.output(r))
    x = fresh(); z = [secint(1), secint(2)]; r = mpc.vector_add(x, z); x[1] = z[0] = junk; res.append(await mpc.output(r))
    x = fresh(); z = [secint(1), secint(2)]; r = mpc.schur_prod(x, z); x[0] = z[1] = junk; res.append(await mpc.output(r))
    x = fresh(); z = [secint(7), secint(8)]; r = mpc.if_else(secint(1), x, z); x[0] = z[0] = junk; res.append(await mpc.output(r))
    x = [secint(5), secint(4)]; r = mpc.sorted(x); x[0] = junk; res.append(await mpc.output(r))
    x = fresh(); r = mpc.max(x); x[1] = junk; res.append(await mpc.output(r))
    res.append(await f)
    ctx.out('r', res)
    res2 = []
    bit = [secint(1), secint(0), secint(1)]
    x = bit[:]; r = mpc.from_bits(x); x[0] = x[2] = junk; res2.append(await mpc.output(r))
    x = bit[:]; r = mpc.find(x, 0); x[1] = junk; res2.append(await mpc.output(r))
    x = bit[:]; r = mpc.all(x); x[1] = junk; res2.append(await mpc.output(r))
    x = bit[:]; z = bit[:]; r = mpc.add_bits(x, z); x[0] = z[0] = junk; res2.append(await mpc.output(r))
    x = fresh(); z = [secint(1), secint(2)]; r = mpc.vector_sub(x, z); x[1] = z[0] = junk; res2.append(await mpc.output(r))
    x = fresh(); r = mpc.scalar_mul(secint(3), x); x[0] = junk; res2.append(await mpc.output(r))
    A = [fresh(), fresh()]; r = mpc.matrix_prod(A, A); A[0][0] = junk; A[1] = [junk, junk]; res2.append([await mpc.output(row) for row in r])
    x = fresh(); z = [secint(7), secint(8)]; r = mpc.if_swap(secint(1), x, z); x[0] = z[1] = junk; res2.append([await mpc.output(list(q)) for q in r])
    x = fresh(); r = mpc.argmax(x); x[1] = junk; res2.append(await mpc.output(list(r)))
    x = fresh(); r = mpc.min_max(x); x[0] = junk; res2.append(await mpc.output(list(r)))
    x = fresh(); r = mpc.convert(x, mpc.SecInt(16)); x[0] = junk; res2.append(await mpc.output(r))
    sl = mpc.seclist(fresh(), secint); src = fresh(); sl.extend(src); src[0] = junk; res2.append(await mpc.output(list(sl)))
    ctx.out('r2', res2)
    await mpc.shutdown()


@program('survivors', ms=(3, 4), expect=None)
async def survivors(mpc, ctx):
    """Only party 1 provides input; the rest is PRSS / public randomness: parties whose predecessors are alive can
    finish these outputs even when party 0 is gone (used by the crash enumeration)."""
    await mpc.start()
    secint = mpc.SecInt(32)      # large field: is_zero_public opens a single blinded product (one round)
    x = mpc.input(secint(7), senders=1)
    y = mpc.input(secint(7), senders=1)
    bits = mpc.random_bits(secint, 2)
    futs = [('x', mpc.output(x)), ('eq', mpc.eq_public(x, y)), ('ne', mpc.is_zero_public(x - y + 1)),
            ('bits', mpc.output(bits)), ('xb', mpc.output(x * 3 + bits[0] - bits[0])), ('lt', mpc.output(x < y + 1))]
    for tag, f in futs:       # every result is logged when it completes: one blocked result does not hide the others
        f.add_done_callback(lambda fut, tag=tag: ctx.out_unordered(tag, fut.result()))
    for tag, f in futs:
        await f
    await mpc.shutdown()


def _pc_race_ops(mpc, secint):
    two = secint(2)
    return [
        ('mul', lambda p: p * p, lambda v: v * v),
        ('schur_prod', lambda p: mpc.sum(mpc.schur_prod([p, two], [two, p])), lambda v: 4 * v),
        ('in_prod', lambda p: mpc.in_prod([p, two], [p, two]), lambda v: v * v + 4),
        ('scalar_mul', lambda p: mpc.sum(mpc.scalar_mul(p, [two, two])), lambda v: 4 * v),
        ('prod', lambda p: mpc.prod([p, two, two]), lambda v: 4 * v),
        ('matrix_prod', lambda p: mpc.matrix_prod([[p, two]], [[two], [p]])[0][0], lambda v: 4 * v),
        ('if_else_list', lambda p: mpc.sum(mpc.if_else(secint(1), [p, two], [two, two])), lambda v: v + 2),
        ('lt', lambda p: (p < 7) + p, lambda v: int(v < 7) + v),
        ('eq', lambda p: (p == 6) + p, lambda v: int(v == 6) + v),
        ('abs', lambda p: abs(p - 9), lambda v: abs(v - 9)),
        ('lsb', lambda p: mpc.lsb(p) + p, lambda v: v % 2 + v),
        ('mod3', lambda p: p % 3 + p, lambda v: v % 3 + v),
        ('floordiv', lambda p: p // 4, lambda v: v // 4),
        ('max', lambda p: mpc.max(p, two), lambda v: max(v, 2)),
        ('to_bits', lambda p: mpc.sum(mpc.to_bits(p)), lambda v: bin(v).count('1')),
        ('all', lambda p: mpc.all([p - 5, secint(1)]) + p, lambda v: int(v - 5 == 1) * 0 + (1 if (v - 5) == 1 else 0) + v),
        ('convert', lambda p: mpc.convert(mpc.convert(p, mpc.SecInt(16)), secint), lambda v: v),
        ('reshare', lambda p: mpc._reshare(p), lambda v: v),
        ('sorted', lambda p: mpc.sorted([p, two])[0], lambda v: min(v, 2)),
        ('if_swap', lambda p: mpc.if_swap(secint(1), p, two)[0], lambda v: 2),
    ]


def _pc_race_program(names, private=False):
    async def prog(mpc, ctx):
        """Every pc-carrying coroutine is started on an operand that is still on its way from party 0, while the main
        program waits for a value from the LAST party only and then forks more work: which of the two arrives first differs
        per party and per schedule, so a coroutine that took its labels from the main program's counter would mislabel.
        private=True: instead, only party 0 waits (for a private result that takes longer than the whole operation), the
        other parties do not wait at all, so the operation's continuation and the main program's next fork happen in
        opposite orders at party 0 and elsewhere -- already on the default schedule."""
        await mpc.start()
        secint = mpc.SecInt(8)
        last = len(mpc.parties) - 1
        res = []
        for name, op, ref in _pc_race_ops(mpc, secint):
            if name not in names:
                continue
            a = mpc.input(secint(6), senders=0)       # pending until party 0's share arrives
            b = mpc.input(secint(3), senders=last)    # pending until the last party's share arrives
            r = op(a)
            if private:
                c = b
                for _ in range(4):
                    c = mpc.if_else(c < 100, c, b)
                priv = mpc.output(c, receivers=0)
                if mpc.pid == 0:
                    await priv
            else:
                await mpc.gather(b)
            g = mpc.output(b * b)
            res.append([name, await mpc.output(r), await g])
        ctx.out('r', res)
        await mpc.shutdown()
    return prog


_ALL_PC_OPS = ['mul', 'schur_prod', 'in_prod', 'scalar_mul', 'prod', 'matrix_prod', 'if_else_list', 'lt', 'eq', 'abs',
               'lsb', 'mod3', 'floordiv', 'max', 'to_bits', 'all', 'convert', 'reshare', 'sorted', 'if_swap']
for _i in range(0, len(_ALL_PC_OPS), 5):
    _names = _ALL_PC_OPS[_i:_i + 5]
    for _priv in (False, True):
        _pn = f"pc_{'priv' if _priv else 'ops'}_race{_i // 5}"
        PROGRAMS[_pn] = dict(name=_pn, fn=_pc_race_program(_names, _priv), ms=(2, 3), tags=set(),
                             expect=(lambda m, _names=_names: [('r', [[n, ref(6), 9] for n, _, ref in _pc_race_ops(None, lambda v: v) if n in _names])]))


def _lib_race_ops(mpc, secint):
    """Coroutines of the library modules built on the runtime (seclists, statistics, random, secgroups, secure floats): each
    awaits a public intermediate and only then starts further secure work, so each needs a program counter of its own."""
    import sys
    two = secint(2)
    mod = lambda n: sys.modules['mpyc.' + n]

    def seclist_remove(p):
        s = mod('seclists').seclist([two, p, secint(5)], secint)
        fut = s.remove(p)                 # public membership test on the pending operand, then a secret-index delete

        async def fin():
            await fut
            return mpc.sum(list(s))
        return fin

    def flt_out(p):
        secflt = mpc.SecFlt(8, 4)
        x = secflt(1.5) * secflt(2.0)
        fut = mpc.output(x)          # SecureFloat._output: opens the significand, then the exponent

        async def fin():
            return secint(int(await fut)) + p
        return fin

    def mode6(p):
        s6 = mpc.SecInt(6)            # range bit length 6 > sec_param // 6: _mode() opens a bit before it goes on
        r = mod('statistics').mode([s6(1), s6(3), s6(1)])

        async def fin():
            return secint(int(await mpc.output(r))) + p
        return fin

    def grp(p):
        G = qr_group(mpc, 23)
        S = mpc.SecGrp(G)
        g = G.generator
        h = S.repeat(g, mpc.convert(p, mpc.SecFld(modulus=G.order)))     # public base, secret field exponent

        async def fin():
            e = await mpc.output(h)
            return secint(int(e == G.repeat(g, 6))) + p
        return fin
    return [
        ('seclist_remove', seclist_remove, lambda v: 7),
        ('median', lambda p: mod('statistics').median([p, two, secint(5)]) + p, lambda v: 5 + v),
        ('mode', mode6, lambda v: 1 + v),
        ('unit_vector', lambda p: mpc.sum(mod('random').random_unit_vector(secint, 3)) + p, lambda v: 1 + v),
        ('derangement', lambda p: mpc.sum(mod('random').random_derangement(secint, [p, two])), lambda v: v + 2),
        ('sample', lambda p: mpc.sum(mod('random').sample(secint, range(2), 2)) + p, lambda v: v + 1),
        ('randrange', lambda p: (lambda r: r * (r - 1) * (r - 2) + p)(mod('random').randrange(secint, 3)), lambda v: v),
        ('flt_out', flt_out, lambda v: 3 + v),
        ('grp_repeat', grp, lambda v: 1 + v),
    ]


def qr_gen(p):
    """Generator the library picks for QR(p): smallest square generating the subgroup (p safe prime: any square != 1)."""
    g = 2
    while pow(g, (p - 1) // 2, p) != 1 or g == 1:
        g += 1
    return g


def _lib_race_program(names):
    async def prog(mpc, ctx):
        """As pc_ops_race, for the coroutines of seclists / statistics / random / secgroups / secure floats."""
        await mpc.start()
        secint = mpc.SecInt(8)
        last = len(mpc.parties) - 1
        res = []
        for name, op, ref in _lib_race_ops(mpc, secint):
            if name not in names:
                continue
            a = mpc.input(secint(6), senders=0)
            b = mpc.input(secint(3), senders=last)
            r = op(a)
            await mpc.gather(b)
            g = mpc.output(b * b)
            if callable(r):
                r = await r()
            res.append([name, await mpc.output(r), await g])
            # second round: a private output.  Party 0 waits for a value that takes longer than the whole operation, the
            # other parties do not wait at all, so the operation's continuation and the main program's next fork happen in
            # opposite orders at party 0 and elsewhere -- on the default schedule
            a = mpc.input(secint(6), senders=0)
            b = mpc.input(secint(3), senders=last)
            r = op(a)
            c = b
            for _ in range(DEEP.get(name, 4)):
                c = mpc.if_else(c < 100, c, b)
            priv = mpc.output(c, receivers=0)
            if mpc.pid == 0:
                await priv           # only the receiver waits for its private result
            g = mpc.output(b * b)
            if callable(r):
                r = await r()
            res.append([name, await mpc.output(r), await g])
        ctx.out('r', res)
        await mpc.shutdown()
    return prog


DEEP = {}
_ALL_LIB_OPS = ['seclist_remove', 'median', 'mode', 'unit_vector', 'derangement', 'sample', 'randrange', 'flt_out', 'grp_repeat']
for _i in range(0, len(_ALL_LIB_OPS)):
    _names = _ALL_LIB_OPS[_i:_i + 1]
    PROGRAMS[f'lib_race_{_names[0]}'] = dict(name=f'lib_race_{_names[0]}', fn=_lib_race_program(_names), ms=(2, 3), tags=set(),
                                             expect=(lambda m, _names=_names: [('r', [[n, ref(6), 9] for n, _, ref in _lib_race_ops(None, lambda v: v) if n in _names for _ in (0, 1)])]))


MICRO = ('mod_race', 'reverse_await', 'mul_cmp')


# ------------------------------------------------------------------------------------------
# NumPy-based coroutines (only where NumPy is present: run by C37 under the tooling interpreter)
# ------------------------------------------------------------------------------------------

def _np_race_ops(mpc, secint):
    import sys
    np = sys.modules['mpyc.numpy'].np
    secfld = mpc.SecFld(101)

    def arr(p, *more):
        """1D secure field array [p, 2, 3, ...] with p (a secure integer from party 0) converted to the field."""
        x = mpc.convert(p, secfld)
        return mpc.np_fromlist([x] + [secfld(v) for v in more])

    def tot(a):
        return mpc.convert(mpc.sum(mpc.np_tolist(a)), secint)
    return [
        ('np_roll_secret', lambda p: tot(mpc.np_roll(arr(p, 2, 3) * np.array([1, 10, 100]) % 101 if False else arr(p, 2, 3), secfld(1))[:1]), lambda v: 3),
        ('np_roll_public', lambda p: tot(mpc.np_roll(arr(p, 2, 3), 1)[:1]), lambda v: 3),
        ('np_multiply', lambda p: tot(arr(p, 2) * arr(p, 3)), lambda v: v * v + 6),
        ('np_matmul', lambda p: tot((arr(p, 2) @ arr(p, 3)).reshape(1)) if False else mpc.convert(arr(p, 2) @ arr(p, 3), secint), lambda v: v * v + 6),
        ('np_sort', lambda p: tot(mpc.np_sort(mpc.np_fromlist([p, secint(2), secint(9)]))[:1]) if False else mpc.np_tolist(mpc.np_sort(mpc.np_fromlist([p, secint(2), secint(9)])))[0], lambda v: min(v, 2)),
        ('np_less', lambda p: mpc.sum(mpc.np_tolist(mpc.np_fromlist([p, secint(2)]) < 5)), lambda v: int(v < 5) + 1),
        ('np_equal', lambda p: mpc.sum(mpc.np_tolist(mpc.np_fromlist([p, secint(2)]) == 6)), lambda v: int(v == 6)),
    ]


def _np_race_program(names):
    async def prog(mpc, ctx):
        """As pc_ops_race (both rounds), for the array coroutines."""
        await mpc.start()
        secint = mpc.SecInt(8)
        last = len(mpc.parties) - 1
        res = []
        for name, op, ref in _np_race_ops(mpc, secint):
            if name not in names:
                continue
            for private in (False, True):
                a = mpc.input(secint(6), senders=0)
                b = mpc.input(secint(3), senders=last)
                r = op(a)
                if private:
                    c = b
                    for _ in range(4):
                        c = mpc.if_else(c < 100, c, b)
                    priv = mpc.output(c, receivers=0)
                    if mpc.pid == 0:
                        await priv
                else:
                    await mpc.gather(b)
                g = mpc.output(b * b)
                res.append([name, int(await mpc.output(r)), await g])
        ctx.out('r', res)
        await mpc.shutdown()
    return prog


NP_RACE_OPS = ['np_roll_secret', 'np_roll_public', 'np_multiply', 'np_matmul', 'np_sort', 'np_less', 'np_equal']
NP_PROGRAMS = {}
for _n in NP_RACE_OPS:
    NP_PROGRAMS[f'np_race_{_n}'] = dict(name=f'np_race_{_n}', fn=_np_race_program([_n]), ms=(2, 3), tags=set(),
                                       expect=(lambda m, _n=_n: [('r', [[n, ref(6), 9] for n, _, ref in _np_race_ops_refs() if n == _n for _ in (0, 1)])]))


def _np_race_ops_refs():
    return [('np_roll_secret', None, lambda v: 3), ('np_roll_public', None, lambda v: 3), ('np_multiply', None, lambda v: v * v + 6),
            ('np_matmul', None, lambda v: v * v + 6), ('np_sort', None, lambda v: min(v, 2)), ('np_less', None, lambda v: int(v < 5) + 1),
            ('np_equal', None, lambda v: int(v == 6))]


try:                                    # registered only where NumPy can be imported (tooling interpreter)
    import numpy as _numpy              # noqa: F401
    PROGRAMS.update(NP_PROGRAMS)
except ImportError:
    pass
