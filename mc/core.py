"""Core of the checking framework: check context, evidence, known findings, worker pool.

A property driver (mc/props/Cxx.py) exposes

    LEVEL = 'exploration' | 'model_checking' | 'fault_enumeration'
    def jobs(tier, seed) -> list of picklable job descriptions
    def run_job(job) -> Part          (executed in a forked worker)
    def replay(doc) -> Part           (optional; re-run one recorded case)
    ASSUMPTIONS = [...], RULE = '...'

and mc.core.main() does the rest: fan-out over a process pool, merging, known-finding
triage, replay files, evidence file, exit code.
"""

import os
import sys
import json
import time
import hashlib
import traceback
import multiprocessing

VERIF = os.path.dirname(os.path.dirname(os.path.abspath(__file__)))
REPO = os.environ.get('VERIF_REPO', '/repo')
NPROC = int(os.environ.get('VERIF_NPROC', '0')) or min(16, os.cpu_count() or 1)
MAX_SAMPLES = 6


def stable_hash(obj):
    """Deterministic 64-bit hash of a JSON-like object (independent of PYTHONHASHSEED)."""
    return int.from_bytes(hashlib.blake2b(repr(obj).encode(), digest_size=8).digest(), 'little')


class Part:
    """Partial result of one job; merged by the parent."""

    def __init__(self):
        self.evaluations = 0
        self.nontrivial = set()    # stable hashes (or small keys) of distinct non-trivial cases
        self.nontrivial_extra = 0  # counted distinct non-trivial cases not kept as keys
        self.states = 0
        self.state_keys = None     # optional set of 64-bit state keys (for global dedup)
        self.transitions = 0
        self.traces = 0            # traces_validated_against_impl
        self.samples = []
        self.violations = []       # dicts: key, what, detail(replay doc)
        self.notes = {}            # extra coverage keys: numbers are summed, lists are extended, sets united
        self.caps = []             # caps that were hit (strings)
        self.outcomes = set()      # distinct observed outcomes (vacuity guard)

    # -- recording -------------------------------------------------------------------------
    def case(self, key=None, nontrivial=True, n=1):
        self.evaluations += n
        if nontrivial:
            if key is None:
                self.nontrivial_extra += n
            else:
                self.nontrivial.add(key if isinstance(key, int) else stable_hash(key))

    def sample(self, s):
        if len(self.samples) < MAX_SAMPLES:
            self.samples.append(s)

    def violation(self, key, what, detail):
        """key: identifies the failing call site / input class (used for known-finding triage
        and for de-duplication); what: one line; detail: JSON-able replay document."""
        for v in self.violations:
            if v['key'] == key:
                v['count'] += 1
                return
        self.violations.append({'key': key, 'what': what, 'detail': detail, 'count': 1})

    def note(self, name, value):
        cur = self.notes.get(name)
        if cur is None:
            self.notes[name] = value
        elif isinstance(value, (int, float)) and not isinstance(value, bool):
            self.notes[name] = cur + value
        elif isinstance(value, list):
            cur.extend(value)
        elif isinstance(value, set):
            cur |= value
        elif isinstance(value, dict):
            for k, v in value.items():
                cur[k] = cur.get(k, 0) + v
        else:
            self.notes[name] = value

    def note_max(self, name, value):
        cur = self.notes.get(name)
        self.notes[name] = value if cur is None else max(cur, value)

    def merge(self, other):
        self.evaluations += other.evaluations
        self.nontrivial |= other.nontrivial
        self.nontrivial_extra += other.nontrivial_extra
        self.states += other.states
        if other.state_keys is not None:
            if self.state_keys is None:
                self.state_keys = set()
            if len(self.state_keys) < 6_000_000:
                self.state_keys |= other.state_keys
            else:
                self.notes['state_keys_overflow'] = True
        self.transitions += other.transitions
        self.traces += other.traces
        for s in other.samples:
            self.sample(s)
        for v in other.violations:
            for w in self.violations:
                if w['key'] == v['key']:
                    w['count'] += v['count']
                    break
            else:
                self.violations.append(v)
        for k, v in other.notes.items():
            if k.startswith('max_'):
                self.note_max(k, v)
            else:
                self.note(k, v)
        self.caps.extend(c for c in other.caps if c not in self.caps)
        self.outcomes |= other.outcomes


def _run_job_wrapped(args):
    modname, job = args
    import importlib
    mod = importlib.import_module(modname)
    try:
        t0 = time.time()
        part = mod.run_job(job)
        if part.state_keys is not None:
            part.states = len(part.state_keys)
        if os.environ.get('VERIF_PROFILE'):
            part.notes['job_times'] = [(round(time.time() - t0, 1), part.evaluations, repr(job)[:150])]
        return part
    except BaseException:
        part = Part()
        part.notes['harness_errors'] = [f'job {job!r:.300}: ' + traceback.format_exc()[-3000:]]
        return part


def run_jobs(modname, jobs, nproc=None, fresh=False):
    """Run jobs in forked workers (one fresh process per job: mpyc keeps module-level state)."""
    nproc = nproc or NPROC
    total = Part()
    if not jobs:
        return total
    if nproc == 1 or len(jobs) == 1 and os.environ.get('VERIF_INLINE'):
        for job in jobs:
            total.merge(_run_job_wrapped((modname, job)))
        return total
    ctx = multiprocessing.get_context('fork')
    with ctx.Pool(min(nproc, len(jobs)), maxtasksperchild=1 if fresh else None) as pool:
        for part in pool.imap_unordered(_run_job_wrapped, [(modname, j) for j in jobs], chunksize=1):
            total.merge(part)
    return total


# -- known findings ------------------------------------------------------------------------

def load_known(pid):
    path = os.path.join(VERIF, 'known_findings.json')
    if not os.path.exists(path):
        return _Known([])
    with open(path) as f:
        doc = json.load(f)
    return _Known([e for e in doc.get('findings', []) if e['property'] == pid and e.get('status') == 'open'])


class _Known:
    """Open findings of one property: exact keys, or 'key_regex' entries (one defect that shows under a family of keys)."""

    def __init__(self, entries):
        import re
        self.exact = {e['key']: e for e in entries if 'key' in e}
        self.rx = [(re.compile(e['key_regex']), e) for e in entries if 'key_regex' in e]

    def get(self, key):
        if key in self.exact:
            return self.exact[key]
        for rx, e in self.rx:
            if rx.fullmatch(key):
                return e
        return None

    def __contains__(self, key):
        return self.get(key) is not None

    def __getitem__(self, key):
        e = self.get(key)
        if e is None:
            raise KeyError(key)
        return e


def jsonable(x):
    if isinstance(x, (str, int, float, bool)) or x is None:
        return x
    if isinstance(x, (list, tuple, set, frozenset)):
        xs = [jsonable(a) for a in x]
        return sorted(xs, key=repr) if isinstance(x, (set, frozenset)) else xs
    if isinstance(x, dict):
        return {str(k): jsonable(v) for k, v in x.items()}
    if isinstance(x, (bytes, bytearray)):
        return {'hex': bytes(x).hex()}
    return repr(x)


def _out_dir(kind):
    """evidence/ and replays/ under /verif describe runs of the whole check on /repo.  Experiments (another tree through
    VERIF_REPO, or a job filter) write to a scratch directory instead, so that they never replace the real files."""
    repo = os.environ.get('VERIF_REPO')
    if (repo and os.path.realpath(repo) != '/repo') or os.environ.get('VERIF_JOBFILTER'):
        d = os.path.join(os.environ.get('VERIF_SCRATCH') or '/tmp/verif_scratch', kind)
    else:
        d = os.path.join(VERIF, kind)
    os.makedirs(d, exist_ok=True)
    return d


def write_replay(pid, v):
    doc = {'property': pid, 'key': v['key'], 'what': v['what'], 'count': v['count'],
           'case': jsonable(v['detail'])}
    digest = hashlib.blake2b(json.dumps(doc, sort_keys=True).encode(), digest_size=6).hexdigest()
    path = os.path.join(_out_dir('replays'), f'{pid}-{digest}.json')
    with open(path, 'w') as f:
        json.dump(doc, f, indent=1, sort_keys=True)
    return path


def finish(pid, tier, seed, level, total, wall, rule, assumptions, extra=None):
    """Triage violations, write evidence, print verdict lines, return exit code."""
    known = load_known(pid)
    harness_errors = total.notes.pop('harness_errors', [])
    for jt in sorted(total.notes.pop('job_times', []), reverse=True)[:12]:
        print('JOBTIME', jt)
    fresh = []
    known_hit = {}
    for v in sorted(total.violations, key=lambda v: str(v['key'])):
        if v['key'] in known:
            known_hit[v['key']] = v
        else:
            fresh.append(v)
    printed = set()
    for key in sorted(known_hit):
        e = known[key]
        if id(e) in printed:
            continue
        printed.add(id(e))
        same = [k for k in known_hit if known[k] is e]
        print(f'KNOWN-FINDING: property={pid} {e["what"]} [{key}{" and %d more keys of this class" % (len(same) - 1) if len(same) > 1 else ""}] '
              f'(seen {sum(known_hit[k]["count"] for k in same)}x)')
    for v in fresh:
        path = write_replay(pid, v)
        print(f'VIOLATION property={pid} replay={path}')
        print(f'  {v["key"]}: {v["what"]} (x{v["count"]})')
    for e in harness_errors:
        print(f'HARNESS-ERROR property={pid}: {e}')

    nontrivial = len(total.nontrivial) + total.nontrivial_extra
    cov = {
        'evaluations': total.evaluations,
        'distinct_nontrivial': nontrivial,
        'rule': rule,
        'samples': jsonable(total.samples[:MAX_SAMPLES]),
        'exhaustive': not total.caps,
        'caps_hit': total.caps,
        'distinct_outcomes': len(total.outcomes),
        'known_findings_seen': sorted(known_hit),
    }
    if level == 'model_checking' or total.transitions:
        states = len(total.state_keys) if total.state_keys is not None and \
            not total.notes.get('state_keys_overflow') else total.states
        cov['states'] = states
        cov['transitions'] = total.transitions
        cov['traces_validated_against_impl'] = total.traces
    for k, v in total.notes.items():
        cov[k] = jsonable(v)
    if extra:
        cov.update(extra)
    ev = {
        'property_id': pid, 'tier': tier, 'seed': seed, 'level': level,
        'coverage': cov, 'assumptions': assumptions, 'wall_s': round(wall, 2),
        'violations': len(fresh),
    }
    with open(os.path.join(_out_dir('evidence'), f'{pid}.json'), 'w') as f:
        json.dump(ev, f, indent=1)
    ok = not fresh and not harness_errors
    if ok and (total.evaluations < 1 or nontrivial < 2):
        print(f'HARNESS-ERROR property={pid}: vacuous run (evaluations={total.evaluations}, '
              f'nontrivial={nontrivial})')
        ok = False
    print(f'{pid} {tier} seed={seed}: evaluations={total.evaluations} nontrivial={nontrivial} '
          f'states={cov.get("states", "-")} transitions={cov.get("transitions", "-")} '
          f'outcomes={len(total.outcomes)} caps={total.caps} wall={wall:.1f}s '
          f'-> {"OK" if ok else "FAIL"}')
    if harness_errors and not fresh:
        return 2
    return 0 if ok else 1


def main(argv=None):
    import argparse
    import importlib
    ap = argparse.ArgumentParser()
    ap.add_argument('pid')
    ap.add_argument('--tier', default=os.environ.get('VERIF_TIER') or 'quick', choices=['quick', 'thorough'])
    ap.add_argument('--seed', type=int, default=int(os.environ.get('VERIF_SEED') or 0))
    ap.add_argument('--replay')
    ap.add_argument('--nproc', type=int, default=None)
    args = ap.parse_args(argv)
    modname = f'mc.props.{args.pid}'
    sys.argv = ['verif', '--no-log']      # mpyc parses sys.argv when imported
    mod = importlib.import_module(modname)
    if args.replay:
        with open(args.replay) as f:
            doc = json.load(f)
        if not hasattr(mod, 'replay'):
            print('replay not supported for', args.pid)
            return 2
        part1 = mod.replay(doc['case'])
        part2 = mod.replay(doc['case'])
        k1 = sorted((v['key'], v['what']) for v in part1.violations)
        k2 = sorted((v['key'], v['what']) for v in part2.violations)
        if k1 != k2:
            print('HARNESS-ERROR: replay is not deterministic', k1, k2)
            return 2
        for key, what in k1:
            print(f'REPLAYED property={args.pid} {key}: {what}')
        if k1:
            print(f'VIOLATION property={args.pid} replay={args.replay}')
            return 1
        print('replay: no violation')
        return 0
    t0 = time.time()
    jobs = mod.jobs(args.tier, args.seed)
    if os.environ.get('VERIF_JOBFILTER'):      # development aid only: run a subset of the jobs
        jobs = [j for j in jobs if os.environ['VERIF_JOBFILTER'] in repr(j)]
    total = run_jobs(modname, jobs, args.nproc, fresh=getattr(mod, 'FRESH_PROCESS_PER_JOB', False))
    extra = mod.coverage_extra(args.tier, args.seed, total) if hasattr(mod, 'coverage_extra') else None
    total.note('jobs', len(jobs))
    return finish(args.pid, args.tier, args.seed, mod.LEVEL, total, time.time() - t0,
                  mod.RULE, list(mod.ASSUMPTIONS), extra)


if __name__ == '__main__':
    sys.exit(main())
