"""Shared driver for C11 (shares of every secure value form a consistent degree-t sharing) and
C14 (sharings dealt during protocols have full threshold degree, from fresh uniform coefficients).

Probe programs run on m real parties in the virtual world; `ctx.probe(name, x)` records every
party's own share of x once it is available.  A monitor around thresha.random_split (rebound
inside each party's module copy) records every dealing: arguments, the coefficient draws it
made through the randomness seam, and its result.
"""

import itertools

from mc.core import Part, stable_hash
from mc.world import World
from mc.explorer import run_execution, explore, first_level_deviations


# ------------------------------------------------------------------------------------------
# independent reference: Lagrange interpolation over GF(p)
# ------------------------------------------------------------------------------------------

def interpolate_at(points, x, p):
    """Value at x of the unique polynomial of degree < len(points) through points, mod p."""
    total = 0
    for i, (xi, yi) in enumerate(points):
        num, den = 1, 1
        for j, (xj, _) in enumerate(points):
            if i != j:
                num = num * (x - xj) % p
                den = den * (xi - xj) % p
        total = (total + yi * num * pow(den, -1, p)) % p
    return total


def degree_le_t_secret(shares, t, p):
    """shares[i] = share of party i (at x=i+1). Returns (consistent, secret)."""
    pts = [(i + 1, s % p) for i, s in enumerate(shares)]
    base = pts[:t + 1]
    for (x, y) in pts[t + 1:]:
        if interpolate_at(base, x, p) != y:
            return False, None
    return True, interpolate_at(base, 0, p)


# ------------------------------------------------------------------------------------------
# probes and monitors
# ------------------------------------------------------------------------------------------

class Ctx:
    def __init__(self, world, pid, inputs):
        self.world, self.pid, self.inputs = world, pid, inputs
        self.shares = {}        # name -> (modulus, share int) | pending
        self.values = {}        # name -> expected plain value (or opened value)
        self.order = []

    def probe(self, mpc, name, x, expect=None, signed=True, scale=1):
        """Record this party's share of secure object x (a secure number) when available."""
        fut = mpc.gather(x)
        self.order.append(name)

        def done(v):
            self.shares[name] = (type(v).modulus if hasattr(type(v), 'modulus') else None, int(v.value) if hasattr(v, 'value') else v)
        if hasattr(fut, 'add_done_callback'):
            fut.add_done_callback(lambda f: done(f.result()))
        else:
            done(fut.value)
        if expect is not None:
            self.values[name] = ('plain', expect, scale)

    def opened(self, name, value, scale=1):
        self.values[name] = ('opened', value, scale)


def install_split_monitor(world):
    """Wrap thresha.random_split in every universe; record dealings with their draws."""
    world.dealings = []
    for i, u in enumerate(world.universes):
        if not hasattr(u.thresha, '_verif_orig_random_split'):
            u.thresha._verif_orig_random_split = u.thresha.random_split
        orig = u.thresha._verif_orig_random_split

        def make(i=i, u=u, orig=orig):
            def random_split(field, s, t, m):
                seam = world.seams[i]
                seam.trace = []
                try:
                    res = orig(field, s, t, m)
                finally:
                    draws, seam.trace = seam.trace, None
                secrets_ = [int(a.value) if hasattr(a, 'value') else int(a) for a in s] \
                    if not hasattr(field.modulus, 'degree') else None
                world.dealings.append(dict(party=i, field=field, order=field.order, secrets=secrets_, t=t, m=m,
                                           draws=draws, result=res, step=world.steps, rt_t=world.mpcs[i].threshold,
                                           logpos=len(world.msglog)))
                return res
            return random_split
        u.thresha.random_split = make()


async def prog_arith(mpc, ctx):
    if getattr(ctx, 'set_t', None) is not None:
        mpc.threshold = ctx.set_t          # the program changes the threshold before start()
    await mpc.start()
    a0, b0 = ctx.inputs
    secint = mpc.SecInt(4)
    a = mpc.input(secint(a0), senders=0)
    b = mpc.input(secint(b0), senders=len(mpc.parties) - 1)
    ctx.probe(mpc, 'a', a, a0)
    ctx.probe(mpc, 'b', b, b0)
    s = a + b
    ctx.probe(mpc, 'a+b', s, a0 + b0)
    d = 3 * a - b
    ctx.probe(mpc, '3a-b', d, 3 * a0 - b0)
    pr = a * b
    ctx.probe(mpc, 'a*b', pr, a0 * b0)
    sq = pr * pr if abs(a0 * b0) < 3 else pr * 1
    ctx.probe(mpc, 'sq', sq, (a0 * b0) ** 2 if abs(a0 * b0) < 3 else a0 * b0)
    lt = a < b
    ctx.probe(mpc, 'a<b', lt, int(a0 < b0))
    eq = a == b
    ctx.probe(mpc, 'a==b', eq, int(a0 == b0))
    mx = mpc.max(a, b)
    ctx.probe(mpc, 'max', mx, max(a0, b0))
    ie = mpc.if_else(lt, a, b)
    ctx.probe(mpc, 'ifelse', ie, a0 if a0 < b0 else b0)
    sw = mpc.if_swap(lt, [a, b], [b, a])
    ctx.probe(mpc, 'swap0', sw[0][0], b0 if a0 < b0 else a0)
    ab = abs(a)
    ctx.probe(mpc, 'abs', ab, abs(a0))
    pd = mpc.prod([a, b, secint(1), secint(-1)])
    ctx.probe(mpc, 'prod', pd, -a0 * b0)
    ip = mpc.in_prod([a, b], [b, a])
    ctx.probe(mpc, 'in_prod', ip, 2 * a0 * b0)
    lsb = mpc.lsb(a)
    ctx.probe(mpc, 'lsb', lsb, a0 % 2)
    md = a % 3
    ctx.probe(mpc, 'mod3', md, a0 % 3)
    rs = mpc._reshare(a)
    ctx.probe(mpc, 'reshare', rs, a0)
    bits = mpc.to_bits(a)
    for i, bt in enumerate(bits):
        ctx.probe(mpc, f'bit{i}', bt, (a0 >> i) & 1)
    await mpc.output([s, d, pr, sq, lt, eq, mx, ie, ab, pd, ip, lsb, md, rs] + bits)
    await mpc.shutdown()


async def prog_random(mpc, ctx):
    """Secure randomness: PRSS (or dealt) random field elements, bits, bounded randoms."""
    if getattr(ctx, 'set_t', None) is not None:
        mpc.threshold = ctx.set_t          # the program changes the threshold before start()
    await mpc.start()
    secint = mpc.SecInt(4)
    secfld = mpc.SecFld(101)
    r = mpc._random(secint)
    if hasattr(r, 'add_done_callback'):
        r = (await r)[0] if isinstance(await r, list) else await r
    ctx.probe(mpc, 'rnd', secint(r) if not isinstance(r, mpc.SecureObject) else r)
    rb = mpc._random(secint, bound=64)
    if hasattr(rb, 'add_done_callback'):
        rb = (await rb)[0]
    rb = secint(rb) if not isinstance(rb, mpc.SecureObject) else rb
    ctx.probe(mpc, 'rnd64', rb)
    bits = mpc.random_bits(secint, 3)
    for i, bt in enumerate(bits):
        ctx.probe(mpc, f'rbit{i}', bt)
    sbits = mpc.random_bits(secfld, 2, signed=True)
    for i, bt in enumerate(sbits):
        ctx.probe(mpc, f'sbit{i}', bt)
    rr = mpc.random.randrange(secint, 2, 7)
    ctx.probe(mpc, 'randrange', rr)
    vals = await mpc.output([mpc.SecInt(4)(0) + rb] + bits + [rr])
    sv = await mpc.output(sbits)
    ctx.opened('rnd64', vals[0]); ctx.opened('randrange', vals[-1])
    for i in range(3):
        ctx.opened(f'rbit{i}', vals[1 + i])
    for i in range(2):
        ctx.opened(f'sbit{i}', int(sv[i]) if int(sv[i]) <= 50 else int(sv[i]) - 101)
    ok = 0 <= vals[0] < 64 and all(v in (0, 1) for v in vals[1:4]) and 2 <= vals[-1] < 7 and \
        all(int(v) in (1, 100) for v in sv)
    ctx.values['__range_ok'] = ('flag', ok, 1)
    await mpc.shutdown()


async def prog_fxp_conv(mpc, ctx):
    if getattr(ctx, 'set_t', None) is not None:
        mpc.threshold = ctx.set_t          # the program changes the threshold before start()
    await mpc.start()
    a0, b0 = ctx.inputs
    secfxp = mpc.SecFxp(8, 3)
    secint = mpc.SecInt(6)
    secfld = mpc.SecFld(101)
    x0, y0 = a0 / 4, b0 / 2
    x = mpc.input(secfxp(x0), senders=0)
    y = mpc.input(secfxp(y0), senders=len(mpc.parties) - 1)
    ctx.probe(mpc, 'x', x, x0, scale=8)
    ctx.probe(mpc, 'x+y', x + y, x0 + y0, scale=8)
    p = x * y
    ctx.probe(mpc, 'x*y', p)
    q = x * 3
    ctx.probe(mpc, 'x*3', q, 3 * x0, scale=8)
    tr = mpc.trunc(x, f=1)
    ctx.probe(mpc, 'trunc', tr)
    ci = mpc.convert(mpc.input(secint(a0), senders=0), secfld)
    ctx.probe(mpc, 'int->fld', ci, a0 % 101, signed=False)
    cf = mpc.convert(mpc.input(secint(b0), senders=0), secfxp)
    ctx.probe(mpc, 'int->fxp', cf, b0, scale=8)
    cx = mpc.convert(x, secint)
    ctx.probe(mpc, 'fxp->int', cx)
    lt = x < y
    ctx.probe(mpc, 'x<y', lt, int(x0 < y0), scale=8)
    o = await mpc.output([p, tr])
    oi = await mpc.output(cx)
    ctx.opened('x*y', o[0], 8), ctx.opened('trunc', o[1], 8), ctx.opened('fxp->int', oi)
    ctx.values['__range_ok'] = ('flag', abs(o[0] - x0 * y0) <= 1 / 8 + 1e-9 and abs(oi - x0) < 1, 1)
    await mpc.shutdown()


PROGS = {'arith': prog_arith, 'random': prog_random, 'fxpconv': prog_fxp_conv}
ALPHABET = [-8, -1, 0, 1, 7]          # SecInt(4) range extremes and neighbours of zero


def plan(prop, tier, seed):
    jobs = []
    core = [(1, 0), (2, 0), (3, 1), (4, 1), (5, 2)] if tier == 'thorough' else [(2, 0), (3, 1), (4, 1), (5, 2)]    # (4,1): m > 2t+1
    if prop == 'C14':
        core = [c for c in core if c[1] >= 1] + ([(3, 0)] if tier == 'thorough' else [])
    for (m, t) in core:
        for no_prss in (False, True):
            for name in PROGS:
                pairs = [(0, 0)] if name == 'random' else list(itertools.product(ALPHABET, repeat=2))
                if name == 'fxpconv':
                    pairs = [(a, b) for a in (-8, -3, 0, 5, 7) for b in (-4, -1, 0, 3)]
                if tier == 'quick' and m >= 4:
                    pairs = pairs[::4]
                chunk = 5 if m <= 3 else 2
                for k in range(0, len(pairs), chunk):
                    jobs.append(dict(prop=prop, m=m, t=t, no_prss=no_prss, prog=name, pairs=pairs[k:k + chunk],
                                     seed=seed, bound=1 if (tier == 'thorough' and m == 3 and k == 0) else 0))
    # threshold changed by the program through the Runtime.threshold setter (setup with t0, run with t)
    for (m, t0, t) in ((3, 0, 1), (4, 0, 1), (5, 1, 2)) + (() if tier == 'quick' else ((3, 1, 0), (5, 2, 1), (4, 1, 0))):
        if prop == 'C14' and t < 1:
            continue
        for no_prss in (False, True):
            for name in PROGS:
                pairs = [(0, 0)] if name == 'random' else [(-8, 7), (3, 3), (-1, 2)] if name == 'arith' else [(-8, -4), (5, 3)]
                jobs.append(dict(prop=prop, m=m, t=t, t0=t0, no_prss=no_prss, prog=name, pairs=pairs, seed=seed, bound=0))
    return jobs


def collect_sent(world):
    """Attach to each dealing the payloads its party sent right after it (same loop step)."""
    # msglog entries have no payload; use the wire: handled through on_write hook instead
    pass


def run_job(job):
    part = Part()
    m, t = job['m'], job['t']
    world = World(m, job.get('t0', t), job['no_prss'], seed=job['seed'])
    world.t = t                      # the threshold the program runs with (set by the program itself when t0 is given)
    install_split_monitor(world)
    world.capture_payloads = True
    for sm in world.seams:
        sm.trace = None
    _patch_seam_trace(world)
    prog = PROGS[job['prog']]
    cfg = f"{job['prog']}/m{m}t{t}{'(set from %d)' % job['t0'] if 't0' in job else ''}{'-noprss' if job['no_prss'] else ''}"
    for pair in job['pairs']:
        ctxs = []
        sent = []

        def setup(w, pair=pair):
            ctxs.clear()
            sent.clear()
            w.dealings = []
            w.on_write = lambda src, dst, data: sent.append((w.steps, src, dst, bytes(data)))
            for p in range(m):
                ctxs.append(Ctx(w, p, pair))
                ctxs[p].set_t = t if 't0' in job else None
                w.spawn(p, prog, ctxs[p])

        def judge(w, x, pair=pair):
            detail = dict(job=dict(job, pairs=[list(pair)]), deviations=list(x.deviations))
            part.transitions += x.nsteps
            if x.status != 'done' or any(w.result(p)[0] != 'ok' for p in range(m)):
                part.violation(f"{job['prop']}:{job['prog']}:incomplete", f'[{cfg}] inputs {pair}: run ends {x.status} '
                               f'{[w.result(p) for p in range(m)]!r:.200} {w.loop_errors!r:.200}', detail)
                if job['prop'] == 'C14':
                    judge_c14(part, cfg, w, ctxs, pair, detail, sent, complete=False)
                return
            if job['prop'] == 'C11':
                judge_c11(part, cfg, w, ctxs, pair, detail)
            else:
                judge_c14(part, cfg, w, ctxs, pair, detail, sent)

        if job['bound'] == 0:
            for policy in ('eager', 'lazy'):
                x = run_execution(world, setup, (), policy, 'none', sched_alts=False)
                judge(world, x)
        else:
            explore(world, setup, judge, 1, policy='eager', chunks='none', record_states=False)
    return part


def _patch_seam_trace(world):
    """Let the seeded seam log (bound, value) of every randbelow while a dealing is monitored."""
    for sm in world.seams:
        if getattr(sm, '_verif_traced', False):
            continue
        orig = sm.randbelow

        def randbelow(n, sm=sm, orig=orig):
            v = orig(n)
            if sm.trace is not None:
                sm.trace.append((n, v))
            return v
        sm.randbelow = randbelow
        sm._verif_traced = True


def judge_c11(part, cfg, w, ctxs, pair, detail):
    m, t = w.m, w.t
    names = ctxs[0].order
    for name in names:
        rec = [c.shares.get(name) for c in ctxs]
        part.case(key=None, nontrivial=t >= 1)
        if any(r is None for r in rec):
            part.violation(f'C11:{name}:missing', f'[{cfg}] inputs {pair}: share of {name} never became available on some party', detail)
            continue
        p = rec[0][0]
        if any(r[0] != p for r in rec):
            part.violation(f'C11:{name}:field', f'[{cfg}] inputs {pair}: parties hold shares of {name} in different fields', detail)
            continue
        shares = [r[1] for r in rec]
        ok, secret = degree_le_t_secret(shares, t, p)
        part.outcomes.add(stable_hash((name, secret)))
        if not ok:
            part.violation(f'C11:{name}:degree', f'[{cfg}] inputs {pair}: shares {shares} of {name} do not lie on a polynomial of degree <= {t}', detail)
            continue
        exp = ctxs[0].values.get(name)
        if exp is not None:
            kind, val, scale = exp
            want = round(val * scale) % p
            if secret != want:
                part.violation(f'C11:{name}:secret', f'[{cfg}] inputs {pair}: shares of {name} reconstruct to {secret} (mod {p}), '
                               f'{"plain reference" if kind == "plain" else "opened value"} is {want}', detail)
        if len(part.samples) < 2 and name in ('a*b', 'rbit0', 'x*y', 'a', 'x'):
            part.sample(dict(config=cfg, inputs=list(pair), value=name, shares=shares, modulus=p, reconstructs_to=secret))
    flag = ctxs[0].values.get('__range_ok')
    if flag is not None and not flag[1]:
        part.violation(f'C11:{cfg.split("/")[0]}:range', f'[{cfg}] inputs {pair}: opened random/rounded values outside their documented range', detail)


def judge_c14(part, cfg, w, ctxs, pair, detail, sent, complete=True):
    m, t = w.m, w.t
    for d in w.dealings:
        part.case(key=None, nontrivial=d['t'] >= 1)
        i = d['party']
        site = 'dealing'
        if d['t'] != d['rt_t'] or d['m'] != m:
            part.violation('C14:threshold', f'[{cfg}] inputs {pair}: party {i} dealt with t={d["t"]}, m={d["m"]}; runtime threshold is {d["rt_t"]}, m={m}', detail)
            continue
        n = len(d['result'][0]) if d['result'] else 0
        draws = d['draws']
        if len(draws) != d['t'] * n or any(b != d['order'] for b, _ in draws):
            part.violation('C14:draws', f'[{cfg}] inputs {pair}: party {i} dealing {n} secret(s) with t={d["t"]} made draws '
                           f'{[(b) for b, _ in draws][:6]} (expected {d["t"] * n} draws with bound {d["order"]}: fresh uniform coefficients per secret)', detail)
            continue
        if d['secrets'] is None:
            continue
        p = d['order']
        ok = True
        for h in range(n):
            c = [v for _, v in draws[h * d['t']:(h + 1) * d['t']]]      # c[0] is the coefficient of X^t
            for party in range(m):
                x1 = party + 1
                want = (d['secrets'][h] + sum(cj * pow(x1, d['t'] - j, p) for j, cj in enumerate(c))) % p
                got = d['result'][party][h]
                got = int(got.value) if hasattr(got, 'value') else int(got)
                if got % p != want:
                    ok = False
        if not ok:
            part.violation('C14:polynomial', f'[{cfg}] inputs {pair}: party {i}: shares are not secret + sum c_j X^(t-j) for the drawn coefficients', detail)
            continue
        part.outcomes.add(stable_hash((d['t'], n, len(draws))))
        field = d['field']
        d['rows'] = {q: field.to_bytes([int(a.value) if hasattr(a, 'value') else int(a) for a in d['result'][q]])
                     for q in range(m)}
    # every message sent by _distribute/_reshare must be the row of a dealing addressed to its recipient:
    # after a dealing by party i, its next m-1 sends from those sites are rows[dst], one per other party
    pending = {}      # party -> list of [dealing, set of parties still to be served]
    deal_at = {}
    for d in w.dealings:
        deal_at.setdefault(d['logpos'], []).append(d)
    for idx in range(len(w.msglog) + 1):
        for d in deal_at.get(idx, []):
            if 'rows' in d:
                pending.setdefault(d['party'], []).append([d, set(range(m)) - {d['party']}])
        if idx == len(w.msglog):
            break
        kind, src, dst, label, n, site = w.msglog[idx]
        if kind != 'send' or site.split('<')[0] not in ('_distribute', '_reshare'):
            continue
        payload = w.payloads.get(idx)
        queue = pending.get(src, [])
        while queue and not queue[0][1]:
            queue.pop(0)
        if not queue:
            part.violation('C14:undealt-message', f'[{cfg}] inputs {pair}: party {src} sent {n} bytes to {dst} from {site} '
                           f'without a preceding random_split dealing', detail)
            continue
        d, todo = queue[0]
        if dst not in todo or d['rows'][dst] != payload:
            what = 'the dealt secret(s) in the clear' if (d['secrets'] is not None and payload == d['field'].to_bytes(d['secrets'])) \
                else 'something else than the share dealt to that party'
            part.violation('C14:payload', f'[{cfg}] inputs {pair}: party {src} ({site}) sent {what} to party {dst}', detail)
        todo.discard(dst)
    for src, queue in pending.items():
        for d, todo in queue:
            if todo and complete:
                part.violation('C14:rows-unsent', f'[{cfg}] inputs {pair}: party {src} dealt shares that were never sent to parties {sorted(todo)}', detail)
    if len(part.samples) < 2 and w.dealings and t >= 1:
        d = w.dealings[0]
        part.sample(dict(config=cfg, inputs=list(pair), party=d['party'], t=d['t'], draws=[list(x) for x in d['draws']][:4],
                         secrets=d['secrets'][:3] if d['secrets'] else None))


def replay(case):
    job = case['job']
    return run_job(job)
