"""E0 -- deviation-bounded, stateless exploration of world executions.

A *scheduler policy* (round-robin eager / lazy) decides the default action at every decision
point; the alternatives at that point are the other things a real network / event loop could
do there.  An execution is identified by its list of deviations [(point index, alternative)].
explore() enumerates every execution with at most `bound` deviations (cost 1 each), replaying
each prefix on a fresh world.  A deviation that is no longer offered while replaying a prefix
is a hard HarnessError (never a silent re-route).
"""

from mc.world import World, Halt, HarnessError


class Execution:
    __slots__ = ('deviations', 'points', 'outcome', 'status', 'world', 'nsteps', 'state_keys', 'detail')

    def __init__(self):
        self.points = []      # per decision point: list of alternatives (tuples)
        self.outcome = None
        self.status = None    # 'done' | 'deadlock' | 'horizon'
        self.state_keys = None
        self.detail = None


def chunk_points(link, n, mode):
    """Split points (1 <= c < n) for a delivery of the n in-flight bytes of link."""
    if n <= 1 or mode == 'none':
        return []
    if mode == 'all' or (mode == 'full' and n <= 32):
        return list(range(1, n))
    base = link.delivered                     # wire offset of the first in-flight byte
    pts = {1, n - 1}
    starts = [base] + [mk for mk in link.marks if base < mk < base + n]
    ends = [mk for mk in link.marks if base < mk <= base + n]
    if mode == 'light':
        for e in ends[:1]:
            pts.add(e - base)
        pts.add(min(n - 1, 12))
    else:
        for e in ends:
            pts.update((e - base - 1, e - base, e - base + 1))
        for s in starts[:3]:
            pts.update((s - base + 11, s - base + 12, s - base + 13))
    return sorted(c for c in pts if 1 <= c < n)


class RRScheduler:
    """Round-robin over the parties; at p's turn its pending local events are taken in canonical
    order (accepts, deliveries per link, eofs, then one loop iteration).

    eager: deliver everything in flight to p, then run(p).
    lazy : if p has ready handles run(p) first and deliver nothing; deliver only to an idle p.
    """

    def __init__(self, world, policy='eager', chunks='light', sched_alts=True):
        self.w = world
        self.policy = policy
        self.chunks = chunks
        self.sched_alts = sched_alts
        self.turn = 0
        self.skipped = set()      # events (kind, q, p) not to be fired in this turn
        self.postponed = []       # delivered last within this turn
        self.idle_turns = 0
        self.fired_in_turn = 0

    def _key(self, ev):
        return ev[:3]

    def _end_turn(self):
        if self.fired_in_turn == 0:
            self.idle_turns += 1
        else:
            self.idle_turns = 0
        self.fired_in_turn = 0
        self.turn = (self.turn + 1) % self.w.m
        self.skipped.clear()
        self.postponed = []

    def decide(self):
        """Return (default_action, alternatives) or None when the world is quiescent."""
        w = self.w
        while True:
            if self.idle_turns >= w.m:
                # nothing fired for a whole round: only skipped events could remain -- none are
                # (skips are per turn) -- so the world is quiescent
                return None
            p = self.turn
            evs = [e for e in w.local_events(p) if self._key(e) not in self.skipped]
            io = [e for e in evs if e[0] not in ('run', 'timer')]
            tail = [e for e in evs if e[0] in ('run', 'timer')]
            if self.postponed:
                io = [e for e in io if self._key(e) not in self.postponed] + \
                     [e for e in io if self._key(e) in self.postponed]
            if self.policy == 'lazy' and tail and tail[0][0] == 'run':
                default = ('fire', tail[0])
                alts = []
                if self.sched_alts:
                    alts = [('fire', e) for e in io] + [('pass',)]
                return default, alts
            if io:
                e = io[0]
                default = ('fire', e)
                alts = []
                if self.sched_alts:
                    alts.append(('skip', e))
                    if len(io) > 1 and self._key(e) not in self.postponed:
                        alts.append(('last', e))
                if e[0] == 'deliver':
                    link = w.links[(e[1], e[2])]
                    alts.extend(('chunk', e, c) for c in chunk_points(link, e[3], self.chunks))
                return default, alts
            if tail:
                default = ('fire', tail[0])
                alts = [('pass',)] if self.sched_alts and tail[0][0] == 'run' else []
                return default, alts
            self._end_turn()

    def apply(self, action):
        w = self.w
        kind = action[0]
        if kind == 'fire':
            ev = action[1]
            w.fire(ev)
            self.fired_in_turn += 1
            if ev[0] in ('run', 'timer'):
                self._end_turn()
        elif kind == 'skip':
            self.skipped.add(self._key(action[1]))
            self.fired_in_turn += 1     # a deliberate delay counts as activity (not quiescence)
        elif kind == 'last':
            self.postponed.append(self._key(action[1]))
        elif kind == 'chunk':
            ev, c = action[1], action[2]
            w.fire((ev[0], ev[1], ev[2], c))
            self.fired_in_turn += 1
            self.skipped.add(self._key(ev))
        elif kind == 'pass':
            # a deliberately skipped run counts as activity (the world is not quiescent)
            self.fired_in_turn += 1
            self._end_turn()
        else:
            raise HarnessError(f'unknown action {action}')


def run_execution(world, setup, deviations=(), policy='eager', chunks='light', sched_alts=True,
                  record_states=False, crash_hook=None, max_points=None):
    """Reset the world, call setup(world) to spawn the mains, then schedule to quiescence.

    deviations: sequence of (point_index, alternative) with increasing point_index.
    Returns an Execution (points, status); the caller evaluates the oracle on world.
    """
    world.reset()
    setup(world)
    sched = RRScheduler(world, policy, chunks, sched_alts)
    x = Execution()
    x.deviations = tuple(deviations)
    devs = {i: tuple(a) if isinstance(a, list) else a for i, a in deviations}
    keys = set() if record_states else None
    idx = 0
    passes_in_row = 0
    try:
        while True:
            d = sched.decide()
            if d is None:
                x.status = 'done' if world.all_done() else 'deadlock'
                break
            default, alts = d
            x.points.append(alts)
            action = default
            if idx in devs:
                want = _norm(devs[idx])
                for a in alts:
                    if _norm(a) == want:
                        action = a
                        break
                else:
                    raise HarnessError(f'deviation {want} not offered at point {idx}: {alts[:8]}')
            idx += 1
            if action[0] == 'pass':
                passes_in_row += 1
            else:
                passes_in_row = 0
            sched.apply(action)
            if crash_hook is not None:
                crash_hook(world, idx)
            if keys is not None:
                keys.add(world.state_key())
            if max_points is not None and idx >= max_points:
                x.status = 'cut'
                break
    except Halt:
        x.status = 'horizon'
    if devs and max(devs) >= idx and x.status != 'cut':
        raise HarnessError(f'deviation point {max(devs)} beyond the end of the execution ({idx} points)')
    x.nsteps = world.steps
    x.state_keys = keys
    return x


def _norm(a):
    """Alternatives compare structurally (lists from JSON == tuples)."""
    if isinstance(a, (list, tuple)):
        return tuple(_norm(b) for b in a)
    return a


def explore(world, setup, oracle, bound, first_level=None, policy='eager', chunks='light',
            sched_alts=True, record_states=True, prefix=(), budget=None, part=None):
    """Enumerate all executions extending `prefix` with at most `bound` further deviations.

    first_level: restrict the *first* new deviation to this list (how jobs partition the tree).
    oracle(world, execution) is called on every execution.  Returns the number of executions.
    budget: optional cap on executions (reported by the caller as a cap when hit).
    """
    count = 0
    stack = [(tuple(prefix), bound, first_level)]
    while stack:
        devs, remaining, restrict = stack.pop()
        x = run_execution(world, setup, devs, policy, chunks, sched_alts, record_states)
        count += 1
        oracle(world, x)
        if part is not None:
            part.transitions += x.nsteps
            if x.state_keys is not None:
                if part.state_keys is None:
                    part.state_keys = set()
                part.state_keys |= x.state_keys
        if budget is not None and count >= budget:
            if part is not None and 'execution budget per job' not in part.caps:
                part.caps.append('execution budget per job')
            break
        if remaining <= 0:
            continue
        if restrict is not None:
            for (i, a) in restrict:
                stack.append((devs + ((i, a),), remaining - 1, None))
            continue
        start = devs[-1][0] + 1 if devs else 0
        for i in range(start, len(x.points)):
            for a in x.points[i]:
                stack.append((devs + ((i, a),), remaining - 1, None))
    return count


def first_level_deviations(world, setup, policy='eager', chunks='light', sched_alts=True):
    """All single deviations of the default execution: [(point, alt), ...] (for job partitioning)."""
    x = run_execution(world, setup, (), policy, chunks, sched_alts)
    out = []
    for i, alts in enumerate(x.points):
        for a in alts:
            out.append((i, a))
    return x, out
