"""E2 -- randomness seam.  All randomness mpyc draws comes from names looked up at call time in
module namespaces (runtime.secrets, thresha.secrets, thresha.PRF, gmpy.random); they are
rebound inside the per-party module copies, never in /repo.
"""

import random as _pyrandom


class SeededSecrets:
    """Deterministic stand-in for the `secrets` module (per party, re-seeded per execution)."""

    def __init__(self, seed, party):
        self.seed, self.party = seed, party
        self.reseed()
        self.ndraws = 0

    def reseed(self, salt=0):
        self.rng = _pyrandom.Random(f'{self.seed}/{self.party}/{salt}')
        self.ndraws = 0

    def randbelow(self, n):
        self.ndraws += 1
        return self.rng.randrange(n)

    def randbits(self, k):
        self.ndraws += 1
        return self.rng.getrandbits(k) if k else 0

    def token_bytes(self, n=32):
        self.ndraws += 1
        return self.rng.getrandbits(8 * n).to_bytes(n, 'little') if n else b''

    def choice(self, seq):
        self.ndraws += 1
        return seq[self.rng.randrange(len(seq))]


def install_seeded(world, seed):
    """Rebind runtime.secrets / thresha.secrets in every universe of the world."""
    seams = []
    for i, u in enumerate(world.universes):
        s = SeededSecrets(seed, i)
        u.rtmod.secrets = s
        u.thresha.secrets = s
        seams.append(s)
    world.seams = seams
    return seams
