"""Generates /verif/MANIFEST.json from the table below (python3 -m mc.manifest)."""

import json
import os

VERIF = os.path.dirname(os.path.dirname(os.path.abspath(__file__)))

SCHED_NOTE = ('trusted: the virtual event loop/transport model (mc/world.py: CPython selector loop at iteration '
              'granularity, FIFO reliable links), the deterministic randomness seam, the explorer; complete only '
              'up to the deviation bound reported in the evidence (deviation_bound)')

CHECKS = {
    'C08': dict(level='model_checking', technique='stateless model checking of the real runtime: deviation-bounded '
                'exhaustive schedule enumeration (delay/reorder/split deliveries, delayed loop iterations) around '
                'round-robin eager and lazy schedulers',
                text='Every execution of 23 corpus programs by 2-5 real parties (real Runtime, MessageExchanger, mpc_coro '
                'machinery on virtual loops) with at most d scheduling deviations is run to quiescence and must '
                'terminate on all parties with the reference outputs; deadlocks report the label mismatch. This is '
                'an exhaustive bounded exploration of the implementation itself, which unit tests (1 party, no '
                'suspension) cannot reach.', ref='DESIGN 3 (E0,E1), 5/C08', note=SCHED_NOTE),
    'C09': dict(level='model_checking', technique='stateless model checking (deviation-bounded schedule enumeration) '
                'with an independent wire-frame parser as oracle',
                text='Same executions as C08; oracle: per directed link the independently parsed frames carry '
                'pairwise distinct labels, the multiset of sent labels equals the multiset of posted receives, and '
                'after shutdown no payload, parked future or unparsed byte is left.', ref='DESIGN 5/C09', note=SCHED_NOTE),
    'C35': dict(level='model_checking', technique='stateless model checking (deviation-bounded schedule enumeration) '
                'with a task-recording monitor',
                text='Barrier/shutdown programs under all schedules within the bound; oracle from a recording Task '
                'class: no MPyC coroutine started before a top-level barrier is pending when it returns, none is '
                'pending when a connection is closed, shutdown completes everywhere and every link is closed.',
                ref='DESIGN 5/C35', note=SCHED_NOTE),
}

CHECKS['C17'] = dict(level='exploration', technique='bounded-exhaustive enumeration of the real PRF against an independent SHAKE-128 reference',
    text='All combinations of 5 keys, all bounds 1..130(300) plus 2^j-1, 2^j, 2^j+1 for j<=130(199), 5 inputs and counts '
    '{None,0,1,2,5} (and array shapes when numpy is present): determinism, range, exact count, prefix consistency, and '
    'equality with an independently written reference.', ref='DESIGN 5/C17',
    note='trusted: hashlib.shake_128; finite declared domain (bounds up to 2^199+1)')

PENDING = {}

# drivers reviewed and released (a driver file that exists but is not listed here is not claimed yet)
READY = ['C01', 'C04', 'C07', 'C08', 'C09', 'C10', 'C11', 'C12', 'C13', 'C14', 'C15', 'C16', 'C17', 'C19', 'C20', 'C21', 'C22', 'C25', 'C26', 'C32', 'C35', 'C36', 'C39', 'C06', 'C02', 'C23', 'C24', 'C27', 'C03', 'C05', 'C18', 'C29', 'C30', 'C31', 'C34', 'C28', 'C33', 'C37', 'C38']


def main():
    props = [json.loads(l) for l in open(os.path.join(VERIF, 'properties.jsonl'))]
    checks = []
    na = []
    for p in props:
        pid = p['id']
        c = CHECKS.get(pid)
        if c is None and pid in READY and os.path.exists(os.path.join(VERIF, 'mc', 'props', pid + '.py')):
            import importlib
            c = getattr(importlib.import_module('mc.props.' + pid), 'MANIFEST', None)
        if c is None:
            na.append({'property_id': pid, 'reason': PENDING.get(pid, 'check not built yet (planned in DESIGN.md section 5); not claimed')})
            continue
        checks.append({
            'property_id': pid,
            'quick_cmd': f'./check {pid} --tier quick',
            'thorough_cmd': f'./check {pid} --tier thorough',
            'evidence_file': f'evidence/{pid}.json',
            'replay_cmd_template': f'./check {pid} --replay {{path}}',
            'engine': c.get('engine', 'mc'),
            'level_claimed': {'category': c['level'], 'text': c['text'], 'design_ref': c['ref']},
            'level_note': c['note'],
            'technique': c['technique'],
        })
    man = {
        'version': 1,
        'setup_cmd': 'true',
        'hooks': {
            'guard': 'MPYC_VERIF',
            'enable': 'no source hooks: all seams are rebindings of names inside per-party copies of the mpyc package made at run time (mc/world.py, mc/randseam.py)',
            'baseline_off_cmd': 'cd /repo && /venv/bin/python -m pytest -ra -q -p no:cacheprovider --timeout=900 --continue-on-collection-errors',
            'source_commits': [],
            'add_only': True,
        },
        'engines': [
            {'name': 'mc', 'path': 'mc/', 'serves_properties': [c['property_id'] for c in checks],
             'kind_free_text': 'hand-written explicit-state / stateless model checker for Python: virtual asyncio world '
             '(m real parties in one process), deviation-bounded schedule explorer, crash/fault enumerator, '
             'bounded-exhaustive enumerators with reference models'},
        ],
        'checks': checks,
        'not_applicable': na,
        'notes': 'Run ./check <id> [--tier quick|thorough] [--replay file]. Checks import mpyc from /repo working tree on every run.',
    }
    with open(os.path.join(VERIF, 'MANIFEST.json'), 'w') as f:
        json.dump(man, f, indent=1)
    print(f'{len(checks)} checks, {len(na)} not claimed')


if __name__ == '__main__':
    main()
