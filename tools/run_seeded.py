#!/usr/bin/env python3
"""Run the checks named in seeded/<id>/meta.json (detected_by + also_try) against a scratch copy of /repo with the
seeded patch applied.  usage: run_seeded.py [id-prefix ...]   Prints one line per (seeded change, check)."""
import os, sys, json, shutil, subprocess, tempfile
V = '/verif'
sel = sys.argv[1:]
for d in sorted(os.listdir(f'{V}/seeded')):
    p = f'{V}/seeded/{d}'
    if not os.path.isdir(p) or not os.path.exists(f'{p}/meta.json') or (sel and not any(d.startswith(s) for s in sel)):
        continue
    meta = json.load(open(f'{p}/meta.json'))
    tmp = tempfile.mkdtemp(prefix='seed_', dir='/tmp')
    try:
        shutil.copytree('/repo/mpyc', f'{tmp}/mpyc')
        r = subprocess.run(['patch', '-p1', '-s', '-i', f'{p}/patch.diff'], cwd=tmp, capture_output=True, text=True)
        if r.returncode:
            print(f'{d}: PATCH FAILED {r.stdout[:200]} {r.stderr[:200]}')
            continue
        for c in meta.get('detected_by', []) + meta.get('also_try', []):
            r = subprocess.run([f'{V}/check', c], capture_output=True, text=True, env=dict(os.environ, VERIF_REPO=tmp), timeout=7200)
            lines = [l for l in r.stdout.splitlines() if l.strip()]
            nv = sum(l.startswith('VIOLATION') for l in lines)
            det = next((l.strip()[:150] for l in lines if l.startswith('  ')), '')
            print(f'{d}: {c} exit={r.returncode} violations={nv} | {det}', flush=True)
    finally:
        shutil.rmtree(tmp, ignore_errors=True)
