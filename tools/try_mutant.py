#!/usr/bin/env python3
"""Apply a textual mutation to a scratch copy of /repo/mpyc and run checks against it.

usage: try_mutant.py <file under mpyc/> <old> <new> <check id> [<check id> ...] [--tests]
The scratch copy lives under /tmp and is removed afterwards; /repo is never touched."""
import os, sys, shutil, subprocess, tempfile

def main():
    args = [a for a in sys.argv[1:] if a != '--tests']
    run_tests = '--tests' in sys.argv
    fname, old, new, *checks = args
    d = tempfile.mkdtemp(prefix='mut_', dir='/tmp')
    try:
        shutil.copytree('/repo/mpyc', os.path.join(d, 'mpyc'))
        if run_tests:
            shutil.copytree('/repo/tests', os.path.join(d, 'tests'))
        p = os.path.join(d, 'mpyc', fname)
        s = open(p).read()
        if s.count(old) != 1:
            print(f'pattern occurs {s.count(old)} times'); return 2
        open(p, 'w').write(s.replace(old, new))
        if run_tests:
            r = subprocess.run(['/venv/bin/python', '-m', 'pytest', '-q', '-x', '-p', 'no:cacheprovider', '--timeout=900'],
                               cwd=d, capture_output=True, text=True, env=dict(os.environ, PYTHONPATH=d))
            print('TESTS:', r.stdout.strip().splitlines()[-1] if r.stdout.strip() else r.stderr[-300:])
        for c in checks:
            r = subprocess.run(['/verif/check', c], capture_output=True, text=True, env=dict(os.environ, VERIF_REPO=d), timeout=3000)
            lines = [l for l in r.stdout.splitlines() if l.strip()]
            viol = [l for l in lines if l.startswith('VIOLATION')]
            detail = [l for l in lines if l.startswith('  ')][:2]
            print(f'{c}: exit={r.returncode} violations={len(viol)}', '|', (detail[0][:260] if detail else lines[-1][:200] if lines else r.stderr[-300:]))
    finally:
        shutil.rmtree(d, ignore_errors=True)

if __name__ == '__main__':
    sys.exit(main())
