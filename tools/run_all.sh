#!/bin/bash
# usage: tools/run_all.sh <seed> [tier]   -- runs every claimed check, prints one line per check
cd "$(dirname "$0")/.."
seed=${1:-0}; tier=${2:-quick}
ids=$(python3 -c "import json;print(' '.join(c['property_id'] for c in json.load(open('MANIFEST.json'))['checks']))")
for id in $ids; do
  start=$(date +%s)
  out=$(VERIF_SEED=$seed timeout 7200 ./check $id --tier $tier 2>&1)
  rc=$?
  end=$(date +%s)
  echo "$id seed=$seed tier=$tier rc=$rc wall=$((end-start))s $(echo "$out" | grep -c '^VIOLATION') violations $(echo "$out" | grep -c '^KNOWN-FINDING') known | $(echo "$out" | grep -m1 '^  ' | cut -c1-160)"
done
