#!/bin/bash
# usage: tools/run_some.sh <tier> <seed> id...
cd "$(dirname "$0")/.."
tier=$1; seed=$2; shift 2
for id in "$@"; do
  start=$(date +%s)
  out=$(VERIF_SEED=$seed timeout 14400 ./check $id --tier $tier 2>&1)
  rc=$?
  end=$(date +%s)
  echo "$id seed=$seed tier=$tier rc=$rc wall=$((end-start))s $(echo "$out" | grep -c '^VIOLATION') violations | $(echo "$out" | grep -m1 '^  ' | cut -c1-200) | $(echo "$out" | tail -1 | cut -c1-200)"
done
