#!/usr/bin/env python3
"""Regenerate seeded/INDEX.md from the meta.json files."""
import json, os
V = '/verif/seeded'
rows = []
for d in sorted(os.listdir(V)):
    p = f'{V}/{d}/meta.json'
    if not os.path.exists(p):
        continue
    m = json.load(open(p))
    needs = m.get('needs_to_manifest') or ''
    if not needs and os.path.exists(f'{V}/{d}/notes.md'):
        needs = '(see notes.md)'
    det = ', '.join(m.get('detected_by', [])) or '-'
    miss = ', '.join(m.get('missed_by', [])) or ''
    rows.append((d, m.get('breaks_property', ''), m.get('change', m.get('origin', ''))[:90], needs[:110], det, miss, m.get('remark', '')))
with open(f'{V}/INDEX.md', 'w') as f:
    f.write('# Seeded property-breaking changes\n\n'
            'S01-S19 and S100-S113: reverse patches of the repairs made to /repo (the pinned tree\'s own defects).  S20+: changes written by independent '
            'sub-agents that were given only the property text and a scratch worktree; each was confirmed here (pinned tests pass with the '
            'change, demo fails with it and passes without) before the checks were run against it.\n\n'
            '| id | property | change | needs | caught by | run but silent | remark |\n|---|---|---|---|---|---|---|\n')
    for r in rows:
        f.write('| ' + ' | '.join(str(x).replace('|', '/').replace('\n', ' ') for x in r) + ' |\n')
print(len(rows), 'entries')
