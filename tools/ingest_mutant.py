#!/usr/bin/env python3
"""Verify a sub-agent's property-breaking change and file it under /verif/seeded/.

usage: ingest_mutant.py <worktree> <A|B> <seeded id> <property> <check> [<check> ...]
Steps (all in the agent's scratch worktree, never in /repo): clean tree -> demo must pass; apply diff -> the pinned
test suite must pass, demo must fail; run the given checks with VERIF_REPO=<worktree>; restore; write seeded/<id>/."""
import os, sys, json, shutil, subprocess
wt, which, sid, prop, *checks = sys.argv[1:]
V = '/verif'
DEMO_PY = os.environ.get('DEMO_PY', '/venv/bin/python')
def sh(cmd, **kw):
    return subprocess.run(cmd, shell=True, capture_output=True, text=True, **kw)
diff, demo = f'{wt}/mut{which}.diff', f'{wt}/demo{which}.py'
assert os.path.exists(diff) and os.path.exists(demo), 'missing files'
sh(f'git -C {wt} checkout -- mpyc')
env = dict(os.environ, PYTHONPATH=wt)
r0 = sh(f'cd {wt} && timeout 300 {DEMO_PY} {demo}', env=env)
print('demo on clean tree: exit', r0.returncode)
a = sh(f'git -C {wt} apply {diff}')
assert a.returncode == 0, a.stderr
t = sh(f'cd {wt} && timeout 900 /venv/bin/python -m pytest -q -p no:cacheprovider --timeout=900 2>&1 | tail -1')
print('tests with change:', t.stdout.strip())
r1 = sh(f'cd {wt} && timeout 300 {DEMO_PY} {demo}', env=env)
print('demo with change: exit', r1.returncode, '|', (r1.stdout + r1.stderr).strip().splitlines()[-1][:200] if (r1.stdout + r1.stderr).strip() else '')
results = {}
for c in checks:
    r = sh(f'{V}/check {c}', env=dict(os.environ, VERIF_REPO=wt), timeout=7200)
    lines = [l for l in r.stdout.splitlines() if l.strip()]
    nv = sum(l.startswith('VIOLATION') for l in lines)
    det = next((l.strip()[:220] for l in lines if l.startswith('  ')), '')
    results[c] = dict(exit=r.returncode, violations=nv, first=det)
    print(f'{c}: exit={r.returncode} violations={nv} | {det}', flush=True)
sh(f'git -C {wt} checkout -- mpyc')
ok = r0.returncode == 0 and r1.returncode != 0 and '71 passed' in t.stdout
d = f'{V}/seeded/{sid}'
os.makedirs(d, exist_ok=True)
shutil.copy(diff, f'{d}/patch.diff')
shutil.copy(demo, f'{d}/demo.py')
notes = open(f'{wt}/notes.md').read() if os.path.exists(f'{wt}/notes.md') else ''
json.dump(dict(id=sid, breaks_property=prop, origin='independent sub-agent given only the property text and a scratch worktree',
               confirmed=dict(demo_passes_on_clean_tree=r0.returncode == 0, demo_fails_with_change=r1.returncode != 0,
                              pinned_tests_with_change=t.stdout.strip()),
               checks_run=results, detected_by=[c for c, v in results.items() if v['exit'] == 1 and v['violations'] > 0],
               missed_by=[c for c, v in results.items() if not (v['exit'] == 1 and v['violations'] > 0)],
               ran=f'git apply in the scratch worktree; pytest; demo; VERIF_REPO=<worktree> ./check ...; git checkout'),
          open(f'{d}/meta.json', 'w'), indent=1)
open(f'{d}/notes.md', 'w').write(notes)
print('CONFIRMED' if ok else 'NOT CONFIRMED', sid)
