# Run: PYTHONPATH=/repo timeout 30 /venv/bin/python findings/C03-private-input.py -M3 --no-log -B 41834   (hangs: exit 124)
from mpyc.runtime import mpc
async def main():
    secfxp = mpc.SecFxp()
    await mpc.start()
    x = mpc.input(secfxp(3.0 if mpc.pid == 0 else None), senders=0)
    print(mpc.pid, x.integral)
    print(mpc.pid, await mpc.output(x*x*0.5))
    y = x * secfxp(0.5)
    print(mpc.pid, await mpc.output(y))
    await mpc.shutdown()
mpc.run(main())
