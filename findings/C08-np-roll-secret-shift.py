# Run: PYTHONPATH=/repo timeout 40 /opt/veriftools/pyvenv/bin/python findings/C08-np-roll-secret-shift.py -M3 --no-log -B 42311   (before the fix: hangs, exit 124)
from mpyc.runtime import mpc
from mpyc.numpy import np
async def main():
    secfld = mpc.SecFld(101)
    secint = mpc.SecInt(8)
    await mpc.start()
    a = mpc.input(secfld.array(np.array([6, 2, 3])), senders=0)
    b = mpc.input(secint(3), senders=2)
    r = mpc.np_roll(a, secfld(1))        # secret shift
    c = b
    for _ in range(4):
        c = mpc.if_else(c < 100, c, b)
    priv = mpc.output(c, receivers=0)
    if mpc.pid == 0:
        await priv                        # only the receiver waits for its private result
    g = mpc.output(b * b)
    print(mpc.pid, await mpc.output(r), await g)
    await mpc.shutdown()
mpc.run(main())
